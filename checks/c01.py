"""C01 - every instruction statement is encoded as the MC6809 instruction it names."""
import itertools
import random

from hypothesis import strategies as st

from vlib import asmmodel as A
from vlib import driver
from vlib import ref6809 as R
from vlib.harness import ok, skip, viol

PID = "C01"
RULE = ("One-instruction programs. Enumerated: every (mnemonic, operand form) pair the datasheet mode table allows "
        "(139 mnemonics; forms inh, #imm, mem with none/</> prefix, [ext], n,R / ,R / R / A|B|D,R / ,R+ ,R++ ,-R ,--R "
        "and their legal indirect variants over X Y U S, n,PCR with literal n, every non-empty register list in 3 "
        "orders, all 52 same-width TFR/EXG pairs, branch to the next label) x the boundary grid "
        "{0,1,15,16,17,127,128,129,255,256,257,32767,32768,65535,-1,-15,-16,-17,-127,-128,-129,-255,-256,-32768} "
        "restricted to the operand's domain x every spelling the value admits (decimal, $hex minimal and padded to "
        "2/3/4 digits, %binary 8/16 digits, 'char) x value source (literal, EQU before/after, EQU alias chain written top-down, label on the "
        "statement itself / before / after). Thorough adds every value 0..65535 and -32768..-1 for representative "
        "mnemonics of each class. Hypothesis draws the same tuples with arbitrary in-domain values. Oracle: the "
        "image, minus helper NOPs, must decode with the independent decoder as exactly one instruction of the "
        "mnemonic's alias set whose normal form equals the source-level meaning. Every case is non-trivial (a "
        "distinct mnemonic/form/value/spelling/source tuple); distinct = hash of the case.")
ASSUMPTIONS = [
    "vlib/ref6809.py (datasheet opcode map and post-byte decoder) is the trusted reference; direct page assumed 0",
    "lines are handed to Program.process as the CLI does: one newline-terminated string per line",
    "SYM,PCR with an EQU symbol is specified by neither README nor property and is not generated; label,PCR is C03",
]
HEALTH = {"src:lit": 20000, "src:equ": 20000, "src:label": 8000, "form:idx": 20000, "form:reglist": 1200, "form:pair": 40}
EXHAUSTIVE = {
    "quick": ["all 139 mnemonics x all operand forms x 24 boundary values (in domain) x all spellings x 8 value sources"],
    "thorough": ["all 139 mnemonics x all operand forms x 24 boundary values (in domain) x all spellings x 8 value sources",
                 "every value 0..65535 and -32768..-1 (in domain) x {dec, minimal hex} x literal source x forms "
                 "imm/mem/extind/idx/pcr for LDA LDX LDY LEAX STA CMPD JMP"],
}

SOURCES = ["lit", "equ_before", "equ_after", "label_self", "label_before", "label_after", "label_org", "equ_chain"]
ORG = 0x1000


def domain(case):
    """inclusive value range of the operand position"""
    form = case["form"]
    if form == "imm":
        return (-128, 255) if A.imm_width(case["mn"]) == 1 else (-32768, 65535)
    if form == "mem":
        return (0, 255) if case.get("force") == "<" else (0, 65535)
    if form == "extind":
        return (0, 65535)
    if form in ("idx", "pcr"):
        return (-32768, 65535)
    return None


def value_cases(base, values, spell_all=True):
    lo, hi = domain(base)
    for v in values:
        if v < lo or v > hi:
            continue
        sp = A.spellings(v) if spell_all else A.spellings(v)[:2]
        for tag, _ in sp:
            yield dict(base, v=v, sp=tag, src="lit")
            if base["form"] != "pcr":
                yield dict(base, v=v, sp=tag, src="equ_before")
                yield dict(base, v=v, sp=tag, src="equ_after")
        if base["form"] != "pcr":
            yield dict(base, v=v, sp=sp[0][0], src="equ_chain")
        if base["form"] != "pcr" and 8 <= v <= 65520:
            for src in ("label_self", "label_before", "label_after", "label_org"):
                yield dict(base, v=v, sp="dec", src=src)
        elif base["form"] != "pcr" and 0 <= v < 8:
            yield dict(base, v=v, sp="dec", src="label_self")
            yield dict(base, v=v, sp="dec", src="label_before")


def forms_of(mn):
    """base cases (without values) for a mnemonic"""
    for form in A.mnemonic_forms(mn):
        if form in ("inh", "branch"):
            yield dict(mn=mn, form=form)
        elif form == "imm":
            yield dict(mn=mn, form=form)
        elif form == "mem":
            for force in ("", "<", ">"):
                yield dict(mn=mn, form=form, force=force)
        elif form == "extind":
            yield dict(mn=mn, form=form)
        elif form == "idx":
            for reg in A.IDX_REGS:
                for ind in (False, True):
                    yield dict(mn=mn, form=form, reg=reg, ind=ind, off=None)
                    yield dict(mn=mn, form=form, reg=reg, ind=ind, off=1)
        elif form == "idxbare":
            for reg in A.IDX_REGS:
                yield dict(mn=mn, form=form, reg=reg)
        elif form == "idxacc":
            for acc in "ABD":
                for reg in A.IDX_REGS:
                    for ind in (False, True):
                        yield dict(mn=mn, form=form, acc=acc, reg=reg, ind=ind)
        elif form == "idxauto":
            for reg in A.IDX_REGS:
                for auto in ("+", "++", "-", "--"):
                    yield dict(mn=mn, form=form, reg=reg, auto=auto, ind=False)
                    if len(auto) == 2:
                        yield dict(mn=mn, form=form, reg=reg, auto=auto, ind=True)
        elif form == "pcr":
            for ind in (False, True):
                yield dict(mn=mn, form=form, ind=ind)
        elif form == "reglist":
            other = "U" if mn in ("PSHS", "PULS") else "S"
            regs = ["CC", "A", "B", "D", "DP", "X", "Y", other, "PC"]
            rnd = random.Random(12345)
            for k in range(1, len(regs) + 1):
                for sub in itertools.combinations(regs, k):
                    yield dict(mn=mn, form=form, regs=list(sub))
                    if k > 1:
                        yield dict(mn=mn, form=form, regs=list(reversed(sub)))
                    if k > 2:
                        sh = list(sub)
                        rnd.shuffle(sh)
                        yield dict(mn=mn, form=form, regs=sh)
        elif form == "pair":
            for group in (A.PAIR8, A.PAIR16):
                for a in group:
                    for b in group:
                        yield dict(mn=mn, form=form, a=a, b=b)


def has_value(base):
    if base["form"] in ("imm", "mem", "extind", "pcr"):
        return True
    return base["form"] == "idx" and base.get("off") is not None


def enumerated(tier, seed):
    for mn in R.MNEMONICS:
        for base in forms_of(mn):
            if has_value(base):
                for case in value_cases(base, A.BOUNDARY):
                    yield case
            else:
                yield base
    # one label (below and above $100) named by two statements of different operand widths: each statement must
    # still be the instruction it names, whatever the other one does with the label
    yield from pair_cases()
    # symbols whose names are made of register letters or begin like a register / mnemonic (AB, ABD, XY, PCRX, CCR ...):
    # a name is a name, whatever it looks like
    yield from tricky_name_cases()
    yield from wide_inherent_cases()
    if tier == "thorough":
        full = list(range(0, 65536)) + list(range(-32768, 0))
        for mn in ("LDA", "LDX", "LDY", "LEAX", "STA", "CMPD", "JMP"):
            for base in forms_of(mn):
                if not has_value(base):
                    continue
                if base.get("reg", "X") != "X" or base.get("force") == "<":
                    continue
                lo, hi = domain(base)
                for v in full:
                    if lo <= v <= hi:
                        for tag, _ in A.spellings(v)[:2]:
                            yield dict(base, v=v, sp=tag, src="lit")


def _pair_forms(label):
    sym = {"sym": label, "op": "", "c": 0}
    return [{"k": "mem", "mn": "LDA", "val": sym, "force": "<"}, {"k": "mem", "mn": "STA", "val": sym, "force": ">"},
            {"k": "mem", "mn": "JMP", "val": sym, "force": ""}, {"k": "imm8", "mn": "LDB", "val": sym}, {"k": "imm16", "mn": "LDX", "val": sym},
            {"k": "extind", "mn": "JSR", "val": sym}, {"k": "idx", "mn": "LDA", "reg": "Y", "ind": False, "val": sym},
            {"k": "idx", "mn": "LDD", "reg": "U", "ind": True, "val": sym}, {"k": "fdb", "vals": [sym]}, {"k": "fcb", "vals": [sym]}]


def pair_cases():
    for org in (0x0020, 0x00F0, 0x0100, 0x2000):
        forms = _pair_forms("L0")
        for i, a in enumerate(forms):
            for j, b in enumerate(forms):
                if i == j:
                    continue
                if org >= 0x100 and any(f["k"] in ("imm8", "fcb") or f.get("force") == "<" for f in (a, b)):
                    continue          # an address of $100 or more does not fit those one-byte positions
                stmts = [{"lab": "", "k": "org", "addr": org}, {"lab": "L0", "k": "inh", "mn": "NOP"},
                         dict(a, lab=""), dict(b, lab=""), {"lab": "L1", "k": "inh", "mn": "NOP"}]
                yield dict(form="labelpair", pair={"org": org, "stmts": stmts})


_TRICKY_NAMES = ["AB", "BD", "ABD", "DA", "XY", "YU", "US", "SP", "PCX", "PCRX", "CCR", "DPR", "AX", "BY", "DX", "XA", "PCR1", "LDA1", "NOPE",
                 "ORG1", "EQU2", "ENDX", "FCB1", "AH", "BEACH", "ADD", "A1", "B2", "D3", "X4"]


def tricky_name_cases():
    for name in _TRICKY_NAMES:
        sym = {"sym": name, "op": "", "c": 0}
        uses = [{"k": "imm8", "mn": "LDA", "val": sym}, {"k": "imm16", "mn": "LDX", "val": sym}, {"k": "mem", "mn": "STA", "val": sym, "force": ""},
                {"k": "extind", "mn": "JMP", "val": sym}, {"k": "idx", "mn": "LDA", "reg": "X", "ind": False, "val": sym},
                {"k": "idx", "mn": "LDB", "reg": "Y", "ind": True, "val": sym}, {"k": "pcr", "mn": "LEAX", "ind": False, "val": sym},
                {"k": "pcr", "mn": "LDD", "ind": True, "val": sym}, {"k": "fdb", "vals": [sym, {"lit": 1, "sp": "dec"}]}, {"k": "br", "mn": "LBRA", "to": name}]
        for value in (5, 300):
            # as an EQU constant (defined before or after the uses); a branch needs a label, so it is left out here
            equ = {"lab": name, "k": "equ", "val": {"lit": value, "sp": "dec"}}
            body = [dict(u, lab="") for u in uses if u["k"] not in ("br", "pcr") and not (value > 255 and u["k"] == "imm8")]
            for before in (True, False):
                stmts = [{"lab": "", "k": "org", "addr": 0x2000}] + ([equ] if before else []) + body + ([] if before else [equ])
                yield dict(form="labelpair", pair={"org": 0x2000, "stmts": stmts})
        # as a label
        body = [dict(u, lab="") for u in uses if u["k"] != "imm8"]
        stmts = [{"lab": "", "k": "org", "addr": 0x2000}, {"lab": name, "k": "inh", "mn": "NOP"}] + body + [{"lab": "ZZL", "k": "inh", "mn": "NOP"}]
        yield dict(form="labelpair", pair={"org": 0x2000, "stmts": stmts})


def wide_inherent_cases():
    """SWI2 / SWI3 (the two-byte inherent instructions) between references to a label and the label itself: everything
    behind them is one byte further than behind a one-byte inherent instruction"""
    sym = {"sym": "TARGET", "op": "", "c": 0}
    for mn in ("SWI2", "SWI3", "SWI", "NOP"):
        for org in (0x0010, 0x1000):
            stmts = [{"lab": "", "k": "org", "addr": org}, {"lab": "", "k": "br", "mn": "BRA", "to": "TARGET"}, {"lab": "", "k": "inh", "mn": mn},
                     {"lab": "", "k": "imm16", "mn": "LDX", "val": sym}, {"lab": "", "k": "mem", "mn": "JMP", "val": sym, "force": ""},
                     {"lab": "", "k": "pcr", "mn": "LEAX", "ind": False, "val": sym}, {"lab": "", "k": "inh", "mn": mn},
                     {"lab": "", "k": "fdb", "vals": [sym]}, {"lab": "TARGET", "k": "inh", "mn": "RTS"},
                     {"lab": "", "k": "inh", "mn": mn}, {"lab": "", "k": "br", "mn": "LBSR", "to": "TARGET"}, {"lab": "ZZL", "k": "inh", "mn": "NOP"}]
            yield dict(form="labelpair", pair={"org": org, "stmts": stmts})


def execute_pair(case):
    from vlib import proggen
    prog = case["pair"]
    lines = proggen.render(prog)
    labels = ["form:labelpair", "src:label"]
    out = driver.assemble(lines)
    if out.kind != "OK":
        return viol("valid pair of statements not accepted ({}: {}) source={!r}".format(out.kind, out.message, lines),
                    fid="C01:pair:rejected", labels=labels)
    problem, _, _ = proggen.check_layout(prog, out)
    if problem:
        return viol("{} source={!r}".format(problem, [l.strip() for l in lines]), fid="C01:pair:" + problem.split("(")[0][:24], labels=labels)
    return ok(labels=labels, nontrivial=True)


# ---- Hypothesis search: every field drawn independently, assembled by construction
_BASES = [b for mn in R.MNEMONICS for b in forms_of(mn) if b["form"] not in ("reglist", "pair")]
_VALUED = [b for b in _BASES if has_value(b)]
_value = st.one_of(st.sampled_from(A.BOUNDARY), st.integers(-32768, 65535), st.integers(-300, 300),
                   st.integers(32000, 33500))


def _assemble_case(base, v, spi, src):
    lo, hi = domain(base)
    if v < lo or v > hi:
        v = lo + (v - lo) % (hi - lo + 1)
    if base["form"] == "pcr":
        src = "lit"
    if src.startswith("label") and not (8 <= v <= 65520):
        src = "equ_before" if v < 0 else "label_self"
    sps = A.spellings(v)
    return dict(base, v=v, sp=sps[spi % len(sps)][0], src=src)


_search = st.builds(_assemble_case, st.sampled_from(_VALUED), _value, st.integers(0, 7), st.sampled_from(SOURCES))


def searches(tier):
    return [("tuples", _search, 60000 if tier == "quick" else 1000000)]


def build(case):
    """-> (lines, strip_front, strip_back, expected value or None / 'after')"""
    v = case.get("v")
    src = case.get("src", "lit")
    pre, post = [], []
    label = ""
    org = ORG
    org_label = ""
    vtext = None
    front = back = 0
    if v is not None:
        if src == "lit":
            vtext = A.spell(v, case["sp"])
        else:
            vtext = A.SYM
            equ = A.line(A.SYM, "EQU", A.spell(v, case["sp"]))
            if src == "equ_before":
                pre.append(equ)
            elif src == "equ_after":
                post.append(equ)
            elif src == "equ_chain":
                # the symbol is an alias of an alias of the constant, written top-down (each definition names one that
                # comes later), next to an unrelated pair of definitions that resolves first
                pre += [A.line("ZZD", "EQU", "ZZT"), A.line("ZZT", "EQU", "5"), A.line(A.SYM, "EQU", "ZZ1"),
                        A.line("ZZ1", "EQU", "ZZ2"), A.line("ZZ2", "EQU", A.spell(v, case["sp"]))]
            elif src == "label_self":
                org = v
                label = A.SYM
            elif src == "label_before":
                org = v
                front = 1
            elif src == "label_org":         # the label sits on the ORG line itself (the program's first statement)
                org = v
                org_label = A.SYM
            elif src == "label_after":
                guess = 3 if case["form"] == "imm" and A.imm_width(case["mn"]) == 2 else 3 if case["form"] == "mem" else 4
                org = max(0, v - guess)
                back = 1
    lines = list(pre)
    lines.append(A.line(org_label, "ORG", "$%04X" % org))
    if front:
        lines.append(A.line(A.SYM, "NOP"))
    lines.append(A.line(label, case["mn"], A.operand_text(case, vtext)))
    if back:
        lines.append(A.line(A.SYM, "NOP"))
    if case["form"] == "branch":
        lines.append(A.line(A.NEXT, "NOP"))
        back = 1
    lines += post
    return lines, front, back, org


def render(case):
    if case.get("form") == "labelpair":
        from vlib import proggen
        return dict(source=[l.rstrip("\n") for l in proggen.render(case["pair"])])
    lines, _, _, _ = build(case)
    return dict(case=case, source=[l.rstrip("\n") for l in lines])


def shape_of_failure(out):
    if out.kind == "DIAG":
        msg = out.message or ""
        stem = msg.split("]")[-1].strip() if "]" in msg else msg
        return "rejected:" + stem[:40]
    if out.kind == "CRASH":
        return "crash:{}@{}".format(out.exc, out.frame)
    return "hang"


def execute(case):
    if case.get("form") == "labelpair":
        return execute_pair(case)
    lines, front, back, org = build(case)
    src = case.get("src", "lit")
    labels = ["form:" + case["form"], "src:" + ("equ" if src.startswith("equ") else "label" if src.startswith("label") else "lit")]
    out = driver.assemble(lines)
    fid_base = "C01:{}:{}:".format(case["form"], src.split("_")[0])
    if out.kind != "OK":
        return viol("valid statement not accepted ({}: {} {}) source={!r}".format(
            out.kind, out.exc, out.message, lines), fid=fid_base + shape_of_failure(out), labels=labels)
    img = out.image
    if front:
        if img[:1] != b"\x12":
            return viol("helper NOP missing in front: {}".format(img.hex()), fid=fid_base + "layout", labels=labels)
        img = img[1:]
    if back:
        if img[-1:] != b"\x12":
            return viol("helper NOP missing at the end: {}".format(img.hex()), fid=fid_base + "layout", labels=labels)
        img = img[:-1]
    insn = R.decode(img, 0)
    if insn is None or insn.length != len(img):
        return viol("bytes {} are not exactly one MC6809 instruction (decoded: {}) source={!r}".format(
            img.hex(), insn, lines), fid=fid_base + "malformed", labels=labels)
    if insn.op != R.canon(case["mn"]):
        return viol("bytes {} decode as {} not {} source={!r}".format(img.hex(), insn.op, case["mn"], lines),
                    fid=fid_base + "wrong_op", labels=labels)
    if case["form"] == "branch":
        want_kind = "rel8" if "rel8" in R.MODES[R.canon(case["mn"])] else "rel16"
        if insn.kind != want_kind or insn.nf[1] != 0:
            return viol("branch to next statement decodes as {}".format(insn), fid=fid_base + "wrong_operand", labels=labels)
        return ok(labels=labels, nontrivial=True)
    v = case.get("v")
    if src == "label_after":
        v = org + insn.length
        lo, hi = domain(case)
        if not lo <= v <= hi:
            return skip("label placed after the statement fell outside the operand's domain", labels=labels)
    expected = A.expected_nf(case, v)
    if not A.nf_matches(expected, insn.nf):
        return viol("bytes {} decode as {} {}, source means {} source={!r}".format(
            img.hex(), insn.op, insn.nf, expected, lines), fid=fid_base + "wrong_operand", labels=labels)
    return ok(labels=labels, nontrivial=True)
