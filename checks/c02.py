"""C02 - listing addresses, symbol values and the emitted image agree."""
import json
import os

from hypothesis import strategies as st

from vlib import driver, proggen
from vlib.harness import ok, skip, viol

PID = "C02"
RULE = ("Hypothesis builds programs of 1-40 statements from 8-integer prototypes: all instruction forms (inherent, #imm 8/16, "
        "direct/extended with </> prefixes, [ext], indexed with constant / accumulator / auto inc-dec / label offsets, "
        "label+-k,PCR, n,PCR, short and long branches, register lists and pairs), FCB/FDB/FCC/RMB of varying lengths, "
        "EQU (before or after use), NAM, SETDP, END; labels on any statement, forward and backward references through "
        "EQU symbols, labels and label+-n; origin from a boundary list or arbitrary, or no ORG at all. Negative "
        "variants: a duplicated label, an undefined symbol (14 operand positions incl. FCB/FDB lists), a second ORG / code before ORG, a further ORG naming "
        "exactly the current location (rejected, or nothing - the reported origin included - changes). A second search feeds "
        "the same kind of program through INCLUDE: a block of its label-free self-contained statements is spliced in "
        "two or three times from one file (side by side or through a wrapper file) and a stretch of the text is moved "
        "into a further file; the walk judges the flat program. Enumerated: EQU aliases of labels, and programs whose last byte is at $FFFF "
        "followed by a labelled END / NAM / SETDP that five kinds of statement refer to (refused, or every byte reserved is emitted). Oracle: independent layout "
        "walk (address advances by the decoded instruction length or the data model's length; listing row address, "
        "listing hex column, image concatenation, symbol table = label addresses + EQU values, instruction meaning via "
        "the reference decoder). Non-trivial = >= 3 byte-emitting statements of >= 2 different sizes and a label "
        "defined after a multi-byte statement, or a no-ORG / low-origin / multi-ORG program, or a negative variant; "
        "distinct by case hash.")
ASSUMPTIONS = [
    "vlib/ref6809.py and the data-directive model in vlib/proggen.py are the trusted reference",
    "the listing is parsed by the README's fixed columns: $AAAA then a 10-character hex column",
    "END / NAM / EQU / SETDP rows may show any address (no property fixes it)",
]
HEALTH = {"accepted": 0.2, "nontrivial_layout": 0.12, "negative": 0.02, "through_include": 600}
EXHAUSTIVE = {"quick": ["EQU aliases of a label (plain / +2 / -1, direct or through a second EQU, before or after the label) at two origins",
                        "every third program of the C03 label,PCR distance families (single, spanning, crossing), judged by the layout walk"],
              "thorough": ["all programs of the C03 label,PCR distance families, judged by the layout walk"]}

_neg = st.sampled_from(["dup_label", "undef_symbol", "second_org", "code_before_org", "org_here", "org_here", "org_twice", "end_early"])
_case = st.one_of(
    st.fixed_dictionaries(dict(prog=proggen.program)),
    st.fixed_dictionaries(dict(prog=proggen.program)),
    st.fixed_dictionaries(dict(prog=proggen.program)),
    st.fixed_dictionaries(dict(prog=proggen.small_program, neg=_neg, at=st.integers(0, 40), at2=st.integers(0, 40))))


# programs whose statements reach the assembler through INCLUDE: the text is cut into files, and a block of
# self-contained label-free statements is spliced in two or three times from one file
_inc_case = st.fixed_dictionaries(dict(prog=proggen.program, inc=st.fixed_dictionaries(dict(
    at=st.lists(st.integers(0, 40), min_size=2, max_size=3), pick=st.lists(st.integers(0, 40), min_size=1, max_size=4),
    cut=st.tuples(st.integers(0, 40), st.integers(0, 40)), diamond=st.booleans()))))
_SPARE_BLOCK = [{"lab": "", "k": "inh", "mn": "NOP"}, {"lab": "", "k": "imm16", "mn": "LDX", "val": {"lit": 0x1234, "sp": "hex4"}},
                {"lab": "", "k": "fcb", "vals": [{"lit": 1, "sp": "dec"}, {"lit": 2, "sp": "dec"}, {"lit": 3, "sp": "dec"}]}]


def _self_contained(s):
    text = json.dumps(s)
    return (not s.get("lab")) and s["k"] in proggen.INSTR_KINDS + ("fcb", "fdb", "fcc", "rmb") and '"sym"' not in text \
        and '"to"' not in text and s["k"] not in ("br", "pcr")


def with_includes(case):
    """-> (flat program the layout walk judges, files {name: lines}, main file name)"""
    prog = case["prog"]
    inc = case["inc"]
    stmts = prog["stmts"]
    pool = [s for s in stmts if _self_contained(s)] or _SPARE_BLOCK
    block = [dict(pool[i % len(pool)]) for i in inc["pick"]]
    first = 1 if stmts and stmts[0]["k"] == "org" else 0
    last = len(stmts) - (1 if stmts and stmts[-1]["k"] == "end" else 0)
    at = sorted(first + a % (last - first + 1) for a in inc["at"])
    flat, pieces, prev = [], [], 0
    for a in at:
        flat += stmts[prev:a] + block
        pieces.append(stmts[prev:a])
        prev = a
    flat += stmts[prev:]
    pieces.append(stmts[prev:])
    flat_prog = dict(prog, stmts=flat)
    render = lambda ss: proggen.render(dict(prog, stmts=ss)) if ss else []
    files = {"blk.asm": render(block)}
    main = []
    for k, piece in enumerate(pieces):
        main += render(piece)
        if k < len(pieces) - 1:
            main.append(" INCLUDE {}\n".format("wrap.asm" if inc["diamond"] and k == len(pieces) - 2 else "blk.asm"))
    if inc["diamond"]:
        files["wrap.asm"] = [" INCLUDE blk.asm\n"]
    # additionally move a stretch of the main text (which holds no INCLUDE line) into a file of its own
    lo, hi = sorted(c % (len(main) + 1) for c in inc["cut"])
    if hi - lo >= 1 and not any(" INCLUDE " in l for l in main[lo:hi]) and not (lo == 0 and first):
        files["part.asm"] = main[lo:hi]
        main = main[:lo] + [" INCLUDE part.asm\n"] + main[hi:]
    files["main.asm"] = main
    return flat_prog, files, "main.asm"


def _from_items(case):
    """C03 item program -> program description of vlib/proggen (same text, judged by the layout walk)"""
    stmts = [{"lab": "", "k": "org", "addr": case["org"]}]
    for it in case["items"]:
        t = it["t"]
        lab = it.get("label", "")
        if t == "nop":
            stmts.append({"lab": lab, "k": "inh", "mn": "NOP"})
        elif t == "rmb":
            stmts.append({"lab": lab, "k": "rmb", "val": proggen.lit(it["n"])})
        elif t == "lda8":
            stmts.append({"lab": lab, "k": "idx", "mn": "LDA", "reg": "X", "ind": False, "val": proggen.lit(100)})
        elif t == "ldx":
            stmts.append({"lab": lab, "k": "imm16", "mn": "LDX", "val": {"lit": 0x1234, "sp": "hex4"}})
        elif t == "br":
            stmts.append({"lab": lab, "k": "br", "mn": it["mn"], "to": it["to"]})
        else:
            k = it.get("k", 0)
            stmts.append({"lab": lab, "k": "pcr", "mn": it["mn"], "ind": bool(it.get("ind")),
                          "val": {"sym": it["to"], "op": "+" if k > 0 else "-" if k < 0 else "", "c": abs(k)}})
    return {"org": case["org"], "stmts": stmts}


def alias_cases():
    """EQU symbols that stand for a label (plain, +n, -n, through a second EQU), defined before or after the label:
    the symbol table must give them the label's listing address (+-n), and uses must encode that value"""
    for org in (0x0E00, 0x0010):
        for k in (0, 2, -1):
            for where in ("before", "after"):
                for chain in (False, True):
                    yield dict(alias=dict(org=org, k=k, where=where, chain=chain))


def execute_alias(case):
    a = case["alias"]
    expr = "START" + ("" if a["k"] == 0 else "%+d" % a["k"])
    define = ["ENTRY EQU {}\n".format(expr)] + (["VECTOR EQU ENTRY\n"] if a["chain"] else [])
    use = "VECTOR" if a["chain"] else "ENTRY"
    lines = [" ORG $%04X\n" % a["org"]] + (define if a["where"] == "before" else []) + [" LDX #{}\n".format(use), " NOP \n", "START LDA #1\n", " FDB {}\n".format(use)] \
        + (define if a["where"] == "after" else []) + [" RTS \n"]
    labels = ["alias"]
    out = driver.assemble(lines)
    if out.kind in ("CRASH", "HANG"):
        return skip("crash/hang: judged by C13", labels=labels)
    if out.kind != "OK":
        return viol("valid program rejected ({}): {!r}".format(out.message, [l.strip() for l in lines]), fid="C02:alias-rejected", labels=labels)
    start = a["org"] + 4                      # LDX #nn (3) + NOP (1)
    want = (start + a["k"]) % 65536
    syms = dict(out.symbols)
    for name, value in (("START", start), ("ENTRY", want)) + ((("VECTOR", want),) if a["chain"] else ()):
        if syms.get(name) != value:
            return viol("symbol table gives {} = {}, expected ${:04X}: {!r}".format(name, syms.get(name), value, [l.strip() for l in lines]),
                        fid="C02:alias-symbol", labels=labels)
    img = out.image
    if img[:3] != bytes([0x8E, want >> 8, want & 0xFF]) or img[6:8] != bytes([want >> 8, want & 0xFF]) or len(img) != 9:
        return viol("image {} does not encode the alias value ${:04X}: {!r}".format(img.hex(), want, [l.strip() for l in lines]),
                    fid="C02:alias-image", labels=labels)
    return ok(labels=labels, nontrivial=True)


def top_cases():
    """the last byte is at $FFFF and a labelled directive that emits nothing follows it: its label would be $10000.
    The program may be refused; accepted, every statement that names the label still emits what it reserves"""
    for use in ("LDX #FINISH", "FDB FINISH", "JMP FINISH", "LDA FINISH,X", "FDB 1,FINISH"):
        for tail in ("END", "END START", "NAM DONE", "SETDP 0"):
            for labelled in (True, False):
                yield dict(top=dict(use=use, tail=tail, labelled=labelled))


def execute_top(case):
    t = case["top"]
    size = {"LDX #FINISH": 3, "FDB FINISH": 2, "JMP FINISH": 3, "LDA FINISH,X": 4, "FDB 1,FINISH": 4}[t["use"]]
    org = 0x10000 - size - 2
    lines = [" ORG $%04X\n" % org, "START NOP \n", " %s\n" % t["use"], " NOP \n",
             "%s %s\n" % ("FINISH" if t["labelled"] else "", t["tail"])] + ([] if t["labelled"] else ["FINISH EQU START\n"])
    labels = ["top_of_memory_label"]
    out = driver.assemble(lines)
    if out.kind in ("CRASH", "HANG"):
        return skip("crash/hang: judged by C13", labels=labels)
    if out.kind == "DIAG":
        if t["labelled"]:
            return ok(labels=labels + ["rejected"], nontrivial=True)
        return viol("valid program rejected ({}): {!r}".format(out.message, [l.strip() for l in lines]), fid="C02:top-rejected", labels=labels)
    value = dict(out.symbols).get("FINISH")
    if not isinstance(value, int):
        return viol("accepted, but the symbol table has no value for FINISH ({!r}): {!r}".format(value, [l.strip() for l in lines]),
                    fid="C02:top-symbol", labels=labels)
    if len(out.image) != size + 2:
        return viol("accepted, but the image has {} bytes where the statements reserve {}: {} {!r}".format(
            len(out.image), size + 2, out.image.hex(), [l.strip() for l in lines]), fid="C02:top-image", labels=labels)
    if out.image[1 + size - 2:1 + size] != bytes([value >> 8 & 0xFF, value & 0xFF]):
        return viol("accepted, but '{}' does not encode FINISH = ${:04X}: {}".format(t["use"], value, out.image.hex()), fid="C02:top-value", labels=labels)
    return ok(labels=labels, nontrivial=True)


def odd_list_cases():
    """FCB / FDB lists with an empty element (a blank after a comma, a trailing comma, two commas): whatever the tool
    makes of them, the statements behind them sit where the listing says"""
    for d in ("FCB", "FDB"):
        for operand in ("1, 2", "$12,$34,", "1,,2", ",1", "1,", "1,2,,", ", 1", "1 ,2"):
            yield dict(odd=dict(lines=[" ORG $0E00\n", "START LDA #1\n", "TBL {} {}\n".format(d, operand), "AFTER LDX #AFTER\n", " FDB AFTER,TBL\n", "LAST RTS \n"]))


def execute_odd(case):
    lines = case["odd"]["lines"]
    labels = ["odd_list_spelling"]
    out = driver.assemble(list(lines))
    if out.kind in ("CRASH", "HANG"):
        return skip("crash/hang: judged by C13", labels=labels)
    if out.kind == "DIAG":
        return ok(labels=labels + ["rejected"], nontrivial=True)
    origin = out.origin if out.origin is not None else 0
    addr = origin
    syms = dict(out.symbols)
    for row, line in zip(out.rows, lines):
        data = bytes.fromhex(row[1])
        lab = line.split()[0] if not line.startswith((" ", "\t")) else None
        if row[0] is not None and (data or lab) and row[0] != addr:
            return viol("row {!r} is listed at ${:04X}, the bytes before it end at ${:04X}: {!r}".format(
                row[2].strip()[:40], row[0], addr, [l.strip() for l in lines]), fid="C02:odd-address", labels=labels)
        if lab and syms.get(lab) != addr:
            return viol("label {} = {} in the symbol table, its statement is at ${:04X}: {!r}".format(lab, syms.get(lab), addr, [l.strip() for l in lines]),
                        fid="C02:odd-symbol", labels=labels)
        if out.image[addr - origin:addr - origin + len(data)] != data:
            return viol("row {!r}: listing shows bytes {} but the image holds {}: {!r}".format(
                row[2].strip()[:40], data.hex(), out.image[addr - origin:addr - origin + len(data)].hex(), [l.strip() for l in lines]),
                fid="C02:odd-bytes", labels=labels)
        addr += len(data)
    if addr - origin != len(out.image):
        return viol("the listing accounts for {} bytes, the image has {}: {!r}".format(addr - origin, len(out.image), [l.strip() for l in lines]),
                    fid="C02:odd-size", labels=labels)
    return ok(labels=labels, nontrivial=True)


def enumerated(tier, seed):
    yield from alias_cases()
    yield from top_cases()
    yield from odd_list_cases()
    # the sizes of PC-relative statements decide every later address: re-use C03's distance families
    from checks import c03
    for i, case in enumerate(c for c in c03.enumerated("quick", seed) if not c.get("numpcr")):
        if case.get("macro"):
            continue
        if any(it["t"] == "pcr" for it in case["items"]) and not any(it["t"] == "rmb" and it["n"] > 2000 for it in case["items"]):
            if i % 3 == 0 or tier == "thorough":
                yield dict(prog=_from_items(case))


def searches(tier):
    return [("programs", _case, 40000 if tier == "quick" else 800000),
            ("through_include", _inc_case, 2500 if tier == "quick" else 60000)]


def apply_negative(case):
    """returns (program, kind) with the defect planted, or (program, None) when it cannot be planted"""
    prog = dict(case["prog"], stmts=[dict(s) for s in case["prog"]["stmts"]])
    stmts = prog["stmts"]
    neg = case.get("neg")
    if not neg:
        return prog, None
    labelled = [i for i, s in enumerate(stmts) if s.get("lab")]
    if neg == "dup_label":
        if not labelled:
            return prog, None
        src = stmts[labelled[case["at"] % len(labelled)]]["lab"]
        free = [i for i, s in enumerate(stmts) if not s.get("lab") and s["k"] in proggen.INSTR_KINDS]
        if not free:
            return prog, None
        stmts[free[case["at2"] % len(free)]]["lab"] = src
        return prog, neg
    if neg == "undef_symbol":
        # a name that is never defined, in every kind of operand position (alone, in an expression, inside a list)
        bad = {"sym": "NOSUCH", "op": ["", "+", "-"][case["at2"] % 3], "c": (case["at2"] // 3) % 3 + 1}
        if not bad["op"]:
            bad["c"] = 0
        one = proggen.lit(1)
        forms = [
            {"k": "imm16", "mn": "LDX", "val": bad}, {"k": "imm8", "mn": "LDA", "val": bad}, {"k": "mem", "mn": "STA", "val": bad},
            {"k": "extind", "mn": "JMP", "val": dict(bad, op="", c=0)}, {"k": "idx", "mn": "LDA", "reg": "X", "ind": False, "val": bad},
            {"k": "pcr", "mn": "LEAX", "ind": False, "val": bad}, {"k": "br", "mn": "BRA", "to": "NOSUCH"}, {"k": "br", "mn": "LBSR", "to": "NOSUCH"},
            {"k": "fcb", "vals": [bad]}, {"k": "fdb", "vals": [bad]}, {"k": "fcb", "vals": [one, bad, one]}, {"k": "fdb", "vals": [one, bad]},
            {"k": "fdb", "vals": [bad, one, one]}, {"k": "rmb", "val": dict(bad, op="", c=0)}]
        stmts.insert(1 + case["at"] % len(stmts), dict(forms[case["at2"] % len(forms)], lab=""))
        return prog, neg
    if neg == "second_org":
        body = [i for i, s in enumerate(stmts) if proggen.size_bounds(s)[0] > 0]
        if prog["org"] is None or len(body) < 1:
            return prog, None
        pos = body[case["at"] % len(body)] + 1          # right after some byte-emitting statement (instruction or data)
        stmts.insert(pos, {"lab": "", "k": "org", "addr": (prog["org"] + 0x1000 + case["at2"] * 16) % 0xE000})
        return prog, neg
    if neg == "end_early":
        # END is a directive that emits nothing, wherever it stands: statements after it are laid out, listed and
        # emitted like any others (a valid program, judged by the ordinary walk)
        body = [i for i, s in enumerate(stmts) if proggen.size_bounds(s)[0] > 0]
        if len(body) < 2:
            return prog, None
        pos = body[case["at"] % (len(body) - 1)] + 1
        labs = [s["lab"] for s in stmts if s.get("lab") and s["k"] in proggen.INSTR_KINDS]
        stmts.insert(pos, {"lab": "", "k": "end", "to": labs[case["at2"] % len(labs)] if labs and case["at2"] % 2 else None})
        return prog, neg
    if neg == "org_twice":
        # an earlier ORG (a template default) overridden by the program's own before any byte is emitted: a valid
        # program, judged by the ordinary walk - the origin is the one in force when the first byte is emitted
        if prog["org"] is None:
            return prog, None
        stmts.insert(0, {"lab": "", "k": "org", "addr": (prog["org"] + 0x0400 + case["at2"] * 0x101) % 0xF000})
        if case["at"] % 2:
            stmts.insert(1, {"lab": "ZZQ", "k": "equ", "val": proggen.lit(5)})
        return prog, neg
    if neg == "org_here":
        # a further ORG whose operand is exactly the current location: nothing moves, so the program may be accepted -
        # and then everything, the reported origin included, must still be as without it
        body = [i for i, s in enumerate(stmts) if proggen.size_bounds(s)[0] > 0]
        if len(body) < 1:
            return prog, None
        pos = body[case["at"] % len(body)] + 1
        if pos >= len(stmts) or stmts[-1]["k"] == "end" and pos >= len(stmts) - 1:
            return prog, None
        base = driver.assemble(proggen.render(prog))
        if base.kind != "OK" or base.rows[pos][0] is None or stmts[pos]["k"] in ("equ", "nam", "setdp", "end", "org"):
            return prog, None
        stmts.insert(pos, {"lab": "", "k": "org", "addr": base.rows[pos][0]})
        return prog, neg
    if neg == "code_before_org":
        if prog["org"] is None or prog["org"] == 0:
            return prog, None
        first = [{"lab": "", "k": "inh", "mn": "NOP"}, {"lab": "", "k": "fcb", "vals": [proggen.lit(1)]},
                 {"lab": "", "k": "rmb", "val": proggen.lit(2)}, {"lab": "", "k": "fcc", "delim": "/", "text": "AB"}][case["at2"] % 4]
        stmts.insert(0, first)
        if case["at"] % 3 == 0:
            stmts.insert(1, {"lab": "ZZQ", "k": "equ", "val": proggen.lit(5)})   # a no-byte statement in between
        return prog, neg
    return prog, None


def render(case):
    if case.get("alias") or case.get("top") or case.get("odd"):
        return case
    if case.get("inc"):
        prog, files, main = with_includes(case)
        return dict(files=dict((k, [l.rstrip("\n") for l in v]) for k, v in files.items()))
    prog, kind = apply_negative(case)
    return dict(negative=kind, source=[l.rstrip("\n") for l in proggen.render(prog)])


def execute(case):
    if case.get("alias"):
        return execute_alias(case)
    if case.get("top"):
        return execute_top(case)
    if case.get("odd"):
        return execute_odd(case)
    labels = []
    if case.get("inc"):
        prog, files, main = with_includes(case)
        neg = None
        lines = proggen.render(prog)
        labels.append("through_include")
        with driver.TempDir() as tmp:
            for name, flines in files.items():
                with open(os.path.join(tmp, name), "w", newline="") as fh:
                    fh.write("".join(flines))
            out = driver.assemble(list(files[main]), cwd=tmp)
    else:
        prog, neg = apply_negative(case)
        lines = proggen.render(prog)
        out = driver.assemble(lines)
    if out.kind in ("CRASH", "HANG"):
        return skip("crash/hang: judged by C13 ({} {} {})".format(out.kind, out.exc, out.frame), labels=labels)
    stmts = prog["stmts"]
    if neg:
        labels.append("negative")
        labels.append("neg:" + neg)
    if neg in ("org_twice", "end_early"):
        neg = None
    if neg in ("dup_label", "undef_symbol"):
        if out.kind == "DIAG":
            return ok(labels=labels, nontrivial=True)
        return viol("{} accepted: {!r}".format(neg, [l.strip() for l in lines][:14]), fid="C02:" + neg + "-accepted", labels=labels)
    if out.kind == "DIAG" and case.get("inc"):
        # the spliced-in blocks move everything behind them: the flat text itself may have become unassemblable
        if driver.assemble(lines).kind == "DIAG":
            return ok(labels=labels + ["rejected", "flat_rejected_too"])
    if out.kind == "DIAG":
        labels.append("rejected")
        if neg in ("second_org", "code_before_org", "org_here"):
            return ok(labels=labels, nontrivial=True)
        return viol("valid program rejected ({}): {!r}".format(out.message, [l.strip() for l in lines][:16]),
                    fid="C02:rejected:" + (out.message or "")[:30], labels=labels)
    labels.append("accepted")
    if neg == "org_here":
        origin = out.origin if out.origin is not None else 0
        first = next((r[0] for r, s in zip(out.rows, stmts) if proggen.size_bounds(s)[1] > 0 and r[1]), None)
        if first is not None and first != origin:
            return viol("ORG at the current location accepted, but the reported origin ${:04X} is not where the first byte "
                        "is listed (${:04X}): {!r}".format(origin, first, [l.strip() for l in lines][:14]),
                        fid="C02:org_here-origin", labels=labels)
        base = driver.assemble(proggen.render(case["prog"]))
        if base.kind == "OK" and (base.image != out.image or dict(base.symbols) != dict(out.symbols)):
            return viol("ORG at the current location changed the image or the symbols: {!r}".format([l.strip() for l in lines][:14]),
                        fid="C02:org_here-changed", labels=labels)
        return ok(labels=labels, nontrivial=True)
    if neg in ("second_org", "code_before_org"):
        # accepted: the image loaded at the reported origin must put every row at its listed address
        origin = out.origin if out.origin is not None else 0
        addr = origin
        for i, row in enumerate(out.rows):
            k = stmts[i]["k"]
            nxt = out.rows[i + 1][0] if i + 1 < len(out.rows) else None
            if k in proggen.INSTR_KINDS or k in ("fcb", "fdb", "fcc", "rmb"):
                if row[0] != addr:
                    return viol("{}: row {!r} is listed at ${:04X} but its bytes sit at ${:04X} when the image is loaded "
                                "at the reported origin ${:04X}".format(neg, row[2].strip()[:40], row[0], addr, origin),
                                fid="C02:" + neg + "-inconsistent", labels=labels)
                size = proggen.size_bounds(stmts[i])
                if nxt is not None and stmts[i + 1]["k"] != "org":
                    addr += nxt - row[0]
                else:
                    addr += size[0]
        return ok(labels=labels, nontrivial=True)
    problem, layout, env = proggen.check_layout(prog, out)
    if problem:
        return viol("{} | source={!r}".format(problem, [l.strip() for l in lines][:30]), fid="C02:" + problem.split("(")[0][:30], labels=labels)
    sizes = set(l for _, l in layout if l)
    emitting = sum(1 for _, l in layout if l)
    late_label = any(stmts[i].get("lab") and stmts[i]["k"] != "equ" and any(l > 1 for _, l in layout[:i]) for i in range(len(stmts)))
    nontrivial = (emitting >= 3 and len(sizes) >= 2 and late_label) or prog["org"] is None or (prog["org"] or 0) < 0x100
    if nontrivial:
        labels.append("nontrivial_layout")
    if prog["org"] is None:
        labels.append("no_org")
    return ok(labels=labels, nontrivial=nontrivial)
