"""C03 - branch and PC-relative displacements reach exactly the referenced target."""
import os

from hypothesis import strategies as st

from vlib import asmmodel as A
from vlib import driver
from vlib import ref6809 as R
from vlib.harness import ok, skip, viol

PID = "C03"
RULE = ("Programs are lists of items (NOP, RMB n, LDA 100,X, LDX #$1234, a branch to a label, a label,PCR / [label,PCR] "
        "/ label+-k,PCR operand) with labels attached to items, so every byte distance is known by construction. "
        "Enumerated: every short branch x both directions x every displacement -140..+140; every long branch x both "
        "directions x 0..140 (all 19) and 32750..32780 (LBRA LBSR LBEQ LBNE); all 38 branches to label+-k (k in 1,2,5) "
        "at four distances, which may be refused but if accepted must reach label+k; branches and label,PCR operands whose label begins with a digit (2ND, 0PAGE: refused, or reaching the label); label,pcr / [label,Pcr] (register in lower or mixed case: refused, or the PC-relative form); label,PCR on LDA LEAX STA JMP (1-byte "
        "opcode) and LDY STS CMPD (2-byte) x plain/indirect x k in {-2,0,+2} x both directions x distance 0..140 with "
        "three filler styles, and 32750..32780 for LDA/LDY; constants of +-100..200 with the label in either order of "
        "writing (T0+120 and 120+T0) at distances 0..35; offsets written with an explicit < or > prefix at distances "
        "0..5, 110..140 and 250..261; pairs (thorough: triples) of nested PCR statements over a "
        "grid of gaps around the 8-bit limit in all direction combinations. Hypothesis draws item lists with 1-6 "
        "relative statements and fillers biased to the limits; a second search and an enumerated family take the "
        "filler between source and target from one label-free file spliced in by INCLUDE, twice or more. Oracle: "
        "accepted -> the image is walked from the origin (fixed items by their known size, relative ones by decoding "
        "in place) giving the true address of every item; every relative statement is listed at its true address, "
        "its target's symbol-table value is the true address of the labelled item, the instruction decoded there has "
        "length = next row - row and (address + length + d) mod 65536 = target + k; rejected -> justified only if some short branch cannot reach even with every PCR "
        "statement at its smallest size. A bare numeric n,PCR / [n,PCR] (n = 0, the 8-bit and 16-bit limits and values either side, decimal and hex) on the same mnemonics, if accepted, must be the PC-relative post-byte ($8C/$8D, $9C/$9D) with displacement n. Non-trivial = some |distance| within 8 of 127/128 or 32767/32768, or >= 2 "
        "PCR statements with overlapping spans; distinct by case hash.")
ASSUMPTIONS = [
    "vlib/ref6809.py is the trusted decoder; filler sizes (NOP 1, RMB n = n, LDA 100,X = 3, LDX #$1234 = 3) are what C01/C02/C05 establish",
    "label addresses are established by walking the image; the symbol table and listing must agree with the walk",
    "hangs and crashes are judged by C13 (counted as skipped here)",
]
HEALTH = {"near_limit": 0.04, "include_twice": 300, "branch_with_constant": 600, "numeric_pcr": 600, "numeric_pcr_zero": 20}
EXHAUSTIVE = {"quick": ["short branches: 19 mnemonics x displacement -140..+140",
                        "long branches: 19 mnemonics x both directions x distance 0..140",
                        "label,PCR: 7 mnemonics x plain/indirect x k in -2,0,2 x both directions x distance 0..140",
                        "one PCR statement spanning 1-6 unsized PCR statements (far/near) x distance 118..136 x both directions",
                        "two crossing PCR statements x gaps 112..129 x 112..129",
                        "bare numeric n,PCR: 7 mnemonics x plain/indirect x 31 values of n (0, +-8-bit and +-16-bit limits) x decimal / $hex / $4-digit hex",
                        "filler from a file included twice: 5 branches + 3 PCR mnemonics x distance 112..135 x both directions"],
              "thorough": ["as quick, plus nested PCR triples over a 10x10x10 gap grid"]}

SHORT = ["BCC", "BCS", "BEQ", "BGE", "BGT", "BHI", "BHS", "BLE", "BLO", "BLS", "BLT", "BMI", "BNE", "BPL", "BRA", "BRN",
         "BSR", "BVC", "BVS"]
LONG = ["L" + m for m in SHORT]
PCR1 = ["LDA", "LEAX", "STA", "JMP"]
PCR2 = ["LDY", "STS", "CMPD"]


def item_text(item):
    t = item["t"]
    lab = item.get("label", "")
    if t == "nop":
        return A.line(lab, "NOP")
    if t == "rmb":
        return A.line(lab, "RMB", str(item["n"]))
    if t == "lda8":
        return A.line(lab, "LDA", "100,X")
    if t == "ldx":
        return A.line(lab, "LDX", "#$1234")
    if t == "inc":          # the macro file (label-free filler statements), spliced by INCLUDE
        return A.line("", "INCLUDE", MACRO_FILE)
    if t == "br":
        k = item.get("k", 0)        # a constant written with the label: BNE T0+1
        return A.line(lab, item["mn"], item["to"] + ("" if k == 0 else "%+d" % k))
    if t == "pcr":
        k = item.get("k", 0)
        if item.get("rev") and k > 0:       # the constant written first: 120+T0,PCR
            tgt = "%d+%s" % (k, item["to"])
        else:
            tgt = item["to"] + ("" if k == 0 else ("+%d" % k if k > 0 else "-%d" % -k))
        body = item.get("pre", "") + tgt + "," + item.get("reg", "PCR")          # an explicit < or > size prefix on the offset
        return A.line(lab, item["mn"], "[" + body + "]" if item.get("ind") else body)
    raise KeyError(t)


def size_bounds(item):
    t = item["t"]
    if t == "nop":
        return 1, 1
    if t == "rmb":
        return item["n"], item["n"]
    if t in ("lda8", "ldx"):
        return 3, 3
    if t == "inc":
        return item["n"], item["n"]
    if t == "br":
        mn = item["mn"]
        if mn in SHORT:
            return 2, 2
        return (3, 3) if mn in ("LBRA", "LBSR") else (4, 4)
    op = 2 if item["mn"] in PCR2 else 1
    return op + 2, op + 3


MACRO_FILE = "filler.asm"


def macro_lines(case):
    """the label-free statements of the included file (None when the program has no INCLUDE)"""
    m = case.get("macro")
    return [item_text(i) for i in fill(m["n"], m["style"])] if m else None


NUMERIC_N = [0, 1, -1, 2, 5, 15, 16, -16, -17, 100, 126, 127, 128, 129, -127, -128, -129, -130, 255, 256, 257, -255, -256,
             -257, 1000, -1000, 4660, 32766, 32767, -32767, -32768]


def numpcr_lines(case):
    n = case["n"]
    txt = str(n) if case["sp"] == 0 else "$%X" % n if case["sp"] == 1 else "$%04X" % n
    body = txt + ",PCR"
    return [A.line("", "ORG", "$%04X" % case["org"]), A.line("", "NOP", ""),
            A.line("", case["mn"], "[" + body + "]" if case["ind"] else body), A.line("", "NOP", "")]


def execute_numpcr(case):
    lines = numpcr_lines(case)
    n = case["n"]
    labels = ["numeric_pcr"] + (["numeric_pcr_zero"] if n == 0 else [])
    out = driver.assemble(lines, timeout=60)
    if out.kind in ("CRASH", "HANG"):
        return skip("crash/hang: judged by C13 ({} {})".format(out.exc, out.frame), labels=labels)
    if out.kind == "DIAG":
        return ok(labels=labels + ["rejected"])        # acceptance of n,PCR is C01's; here: if accepted, d is n
    img = bytes(out.image)
    src = [l.strip() for l in lines]
    if len(img) < 4 or img[0] != 0x12 or img[-1] != 0x12:
        return viol("image {} does not hold NOP, the statement, NOP: {!r}".format(img.hex(), src), fid="C03:numeric-pcr", labels=labels)
    st_bytes = img[1:-1]
    op = 2 if case["mn"] in PCR2 else 1
    if len(st_bytes) <= op:
        return viol("{} has no post-byte: {!r}".format(st_bytes.hex(), src), fid="C03:numeric-pcr", labels=labels)
    pb = st_bytes[op]
    want_ind = 0x10 if case["ind"] else 0
    if pb == (0x8C | want_ind) and len(st_bytes) == op + 2:
        d = st_bytes[op + 1] - 256 if st_bytes[op + 1] >= 128 else st_bytes[op + 1]
        good = d == n
    elif pb == (0x8D | want_ind) and len(st_bytes) == op + 3:
        d = (st_bytes[op + 1] << 8) | st_bytes[op + 2]
        good = d == n % 65536
    else:
        return viol("{} is not a PC-relative indexed form (post-byte ${:02X}, {} bytes) for {!r}".format(
            st_bytes.hex(), pb, len(st_bytes), src), fid="C03:numeric-pcr", labels=labels)
    if not good:
        return viol("{} encodes displacement {} for the bare numeric operand {}: {!r}".format(st_bytes.hex(), d, n, src),
                    fid="C03:numeric-pcr", labels=labels)
    return ok(labels=labels, nontrivial=True)


def build(case):
    return [A.line("", "ORG", "$%04X" % case["org"])] + [item_text(i) for i in case["items"]]


def render(case):
    if case.get("numpcr"):
        return dict(org=case["org"], source=[l.rstrip("\n") for l in numpcr_lines(case)])
    return dict(org=case["org"], source=[l.rstrip("\n") for l in build(case)])


def fill(n, style):
    """items of total size n"""
    if n <= 0:
        return []
    if style == 0 or n > 400:
        return [dict(t="rmb", n=n)]
    if style == 1:
        return [dict(t="nop") for _ in range(n)]
    out = []
    while n >= 3 and len(out) < 60:
        out.append(dict(t="lda8" if len(out) % 2 == 0 else "ldx"))
        n -= 3
    if n > 60:
        out.append(dict(t="rmb", n=n))
    else:
        out += [dict(t="nop") for _ in range(n)]
    return out


def one_source(src, dist, forward, style):
    """program with one relative statement `src` and its target `dist` bytes of filler away"""
    f = fill(dist, style)
    if forward:
        items = [dict(t="nop"), src] + f + [dict(t="nop", label="T0"), dict(t="nop")]
    else:
        if f:
            f[0] = dict(f[0], label="T0")
            items = [dict(t="nop")] + f + [src, dict(t="nop")]
        else:
            items = [dict(t="nop"), dict(src, label="T0"), dict(t="nop")]
    return dict(org=0x0200, items=items)


def enumerated(tier, seed):
    # 1. short branches, displacement -140..140
    for mn in SHORT:
        for d in range(-140, 141):
            if d >= 0:
                yield one_source(dict(t="br", mn=mn, to="T0"), d, True, d % 3)
            elif d <= -2:
                yield one_source(dict(t="br", mn=mn, to="T0"), -d - 2, False, d % 3)
    # 1b. a branch to a label with a constant (BNE T0+1): refused or reaching label+constant, never somewhere else
    for mn in SHORT + LONG:
        for k in (-2, -1, 1, 2, 5):
            for dist in (0, 1, 10, 100):
                for forward in (True, False):
                    yield one_source(dict(t="br", mn=mn, to="T0", k=k), dist, forward, dist % 3)
    # 1c. the register of a PC-relative operand written in lower or mixed case, plain and indirect
    for mn in PCR1 + PCR2:
        for ind in (False, True):
            for reg in ("pcr", "Pcr", "pCR"):
                for k in (0, 2):
                    for dist in (0, 5, 130):
                        for forward in (True, False):
                            yield one_source(dict(t="pcr", mn=mn, ind=ind, to="T0", k=k, reg=reg), dist, forward, dist % 3)
    # 1d. a target label whose name begins with a digit (2ND, 0PAGE): the tool takes such names; whether or not it
    #     keeps doing so, an accepted reference must reach the label and not be read as a number
    for name in ("2ND", "1ST", "0PAGE", "3D"):
        for src in (dict(t="br", mn="BRA"), dict(t="br", mn="LBSR"), dict(t="br", mn="BNE"), dict(t="pcr", mn="LEAX", ind=False, k=0),
                    dict(t="pcr", mn="LDY", ind=True, k=0), dict(t="pcr", mn="LDA", ind=False, k=1)):
            for dist in (0, 5, 130):
                for forward in (True, False):
                    case = one_source(dict(src, to="T0"), dist, forward, dist % 3)
                    for it in case["items"]:
                        if it.get("label") == "T0":
                            it["label"] = name
                        if it.get("to") == "T0":
                            it["to"] = name
                    case["odd_label"] = True
                    yield case
    # 2. long branches
    for mn in LONG:
        far = range(32750, 32781) if mn in ("LBRA", "LBSR", "LBEQ", "LBNE") else []
        for dist in list(range(0, 141)) + list(far):
            for forward in (True, False):
                yield one_source(dict(t="br", mn=mn, to="T0"), dist, forward, dist % 3)
    # 3. label,PCR around the 8-bit limit
    for mn in PCR1 + PCR2:
        for ind in (False, True):
            if ind and mn == "LEAX" and False:
                continue
            for k in (-2, 0, 2):
                for dist in range(0, 141):
                    for forward in (True, False):
                        yield one_source(dict(t="pcr", mn=mn, ind=ind, to="T0", k=k), dist, forward, (dist + k) % 3)
    # 3b. a large constant with the label (either order of writing): the label is near, label+k is not
    for mn in ("LDA", "LEAX", "LDY"):
        for ind in (False, True):
            for k in (100, 120, 127, 128, 200, -100, -128, -200):
                for dist in list(range(0, 36)) + [120, 127]:
                    for forward in (True, False):
                        yield one_source(dict(t="pcr", mn=mn, ind=ind, to="T0", k=k), dist, forward, dist % 3)
                        if k > 0:
                            yield one_source(dict(t="pcr", mn=mn, ind=ind, to="T0", k=k, rev=True), dist, forward, dist % 3)
    # 3c. the offset written with an explicit size prefix (<label,PCR  >label,PCR): whatever the tool makes of the
    #     prefix, an accepted operand must reach its label (a < that cannot hold the displacement may be refused)
    for mn in ("LDA", "LDY"):
        for ind in (False, True):
            for pre in ("<", ">"):
                for dist in list(range(0, 6)) + list(range(110, 141)) + list(range(250, 262)):
                    for forward in (True, False):
                        yield one_source(dict(t="pcr", mn=mn, ind=ind, to="T0", k=0, pre=pre), dist, forward, dist % 3)
    # 4. label,PCR around the 16-bit limit
    for mn in ("LDA", "LDY"):
        for dist in range(32750, 32781):
            for forward in (True, False):
                yield one_source(dict(t="pcr", mn=mn, ind=False, to="T0", k=0), dist, forward, 0)
    # 5. nested pairs: outer spans inner
    grid = [0, 1, 2, 3, 60, 118, 119, 120, 121, 122, 123, 124, 125, 126, 127, 128]
    small = [0, 1, 2, 3, 4, 5]
    for mo, mi in (("LDA", "LDA"), ("LDY", "LDA"), ("LDA", "LDY"), ("LEAX", "CMPD")):
        for g1 in small:
            for g2 in grid:
                for g3 in small:
                    for dirs in ("ff", "fb", "bf", "bb"):
                        yield nested2(mo, mi, g1, g2, g3, dirs)
    # 6. one PCR statement whose span holds m other not-yet-sized PCR statements (far -> 16-bit, near -> 8-bit),
    #    its own true displacement swept across the 8-bit limit
    for mo in ("LDA", "LDY"):
        for m in range(1, 7):
            for far in (True, False):
                for d in range(118, 137):
                    for forward in (True, False):
                        yield nested_many(mo, m, far, d, forward)
                        yield nested_many(mo, m, far, d, forward, inner_ind=True, outer_ind=(d % 2 == 0))
    # 6b. the same with fixed-size statements of mixed sizes inside the span, and self references with a constant
    for mo in ("LDA", "LDY"):
        for m in (2, 4, 6, 8):
            for d in range(120, 141):
                yield nested_many(mo, m, True, d, True, fill_style=2)
                yield nested_many(mo, m, True, d, False, fill_style=2)
    for mn in PCR1 + PCR2:
        for ind in (False, True):
            for k in list(range(-140, -108)) + list(range(108, 141)) + [-3, -1, 1, 3]:
                yield dict(org=0x0700, items=[dict(t="nop"), dict(t="pcr", mn=mn, ind=ind, to="SELF", k=k, label="SELF"), dict(t="nop")])
    # 6c. a forward reference whose span holds 1-3 backward references, each of them near its own limit
    for mf in ("LEAX", "LDY"):
        for m in (1, 2, 3):
            for pre in range(112, 128):
                for g in range(106, 126):
                    yield fwd_over_backs(mf, m, pre, g)
    # 7. two crossing PCR statements (forward one followed by a backward one), both near the limit
    for ma, mb in (("LEAX", "LEAY"), ("LDA", "LDY"), ("LDY", "LDA")):
        for n1 in range(112, 130):
            for n2 in range(112, 130):
                yield crossing(ma, mb, n1, n2)
    # 8. the filler between source and target comes from one label-free file included twice
    yield from include_family()
    # 8. a bare numeric n,PCR / [n,PCR]: the displacement is n itself (0 included: there is no ",PCR without offset" form)
    for mn in PCR1 + PCR2:
        for ind in (False, True):
            for n in NUMERIC_N:
                for sp in (0, 1, 2):
                    if sp and n < 0:
                        continue
                    yield dict(numpcr=True, mn=mn, ind=ind, n=n, sp=sp, org=(0x1000, 0x0000, 0xFF00)[(n + sp) % 3])
    if tier == "thorough":
        g = [0, 1, 40, 41, 42, 43, 44, 45, 80, 120]
        for a in g:
            for b in g:
                for c in g:
                    yield nested3(a, b, c)


def via_include(src, dist, forward, m, style):
    """one relative statement whose filler is the same label-free file included twice plus a rest"""
    rest = fill(dist - 2 * m, 1)
    f = [dict(t="inc", n=m), dict(t="inc", n=m)] + rest
    if forward:
        items = [dict(t="nop"), src] + f + [dict(t="nop", label="T0"), dict(t="nop")]
    else:
        items = [dict(t="nop"), dict(t="nop", label="T0")] + f + [src, dict(t="nop")]
    return dict(org=0x0200, items=items, macro=dict(n=m, style=style))


def include_family():
    for mn in ("BRA", "BSR", "LBRA", "LBSR", "LBEQ"):
        for dist in range(112, 136):
            for forward in (True, False):
                yield via_include(dict(t="br", mn=mn, to="T0"), dist, forward, 50, dist % 3)
    for mn in ("LDA", "LEAX", "LDY"):
        for ind in (False, True):
            for dist in range(112, 136):
                for forward in (True, False):
                    yield via_include(dict(t="pcr", mn=mn, ind=ind, to="T0", k=0), dist, forward, 50, dist % 3)


def nested2(mo, mi, g1, g2, g3, dirs):
    """outer statement O and inner statement I; labels TA (far side) and TB"""
    o_fwd, i_fwd = dirs[0] == "f", dirs[1] == "f"
    items = [dict(t="nop", label="HEAD")]
    outer = dict(t="pcr", mn=mo, ind=False, to="TAIL" if o_fwd else "HEAD", k=0)
    inner = dict(t="pcr", mn=mi, ind=False, to="TAIL" if i_fwd else "HEAD", k=0)
    if o_fwd:
        items += fill(g1, 1) + [outer] + fill(g2, 2) + [inner] + fill(g3, 1)
    else:
        items += fill(g1, 1) + [inner] + fill(g2, 2) + [outer] + fill(g3, 1)
    items += [dict(t="nop", label="TAIL"), dict(t="nop")]
    return dict(org=0x0300, items=items)


def nested_many(mo, m, far, d, forward, inner_ind=False, outer_ind=False, fill_style=0):
    """outer statement spans m inner PCR statements; d = bytes between outer and its target assuming the inner
    statements take their final size (far: 4 bytes each, near: 3 bytes each)"""
    inner_size = 4 if far else 3
    gap = max(0, d - m * inner_size)
    inner = [dict(t="pcr", mn="LEAY", ind=inner_ind, to="FAR" if far else "NEAR", k=0) for _ in range(m)]
    outer = dict(t="pcr", mn=mo, ind=outer_ind, to="TGT", k=0)
    items = [dict(t="nop", label="NEAR")]
    if forward:
        items += [outer] + inner + fill(gap, fill_style) + [dict(t="nop", label="TGT")]
    else:
        items += [dict(t="nop", label="TGT")] + fill(gap, fill_style) + inner + [outer]
    items += [dict(t="rmb", n=400), dict(t="nop", label="FAR")]
    return dict(org=0x0500, items=items)


def fwd_over_backs(mf, m, pre, g):
    """S0..S(m-1) defined `pre` bytes (in all) before a forward reference F -> T; m backward references to the S_i
    follow F; then g bytes; then T"""
    items = []
    left = pre
    for i in range(m):
        n = 4 if i < m - 1 else max(0, left)
        items.append(dict(t="rmb", n=n, label="S%d" % i))
        left -= n
    items.append(dict(t="pcr", mn=mf, ind=False, to="T", k=0))
    for i in range(m):
        items.append(dict(t="pcr", mn="LDA", ind=False, to="S%d" % i, k=0))
    items += [dict(t="rmb", n=g), dict(t="nop", label="T"), dict(t="nop")]
    return dict(org=0x0800, items=items)


def crossing(ma, mb, n1, n2):
    items = [dict(t="nop", label="BACK"), dict(t="rmb", n=n1), dict(t="pcr", mn=ma, ind=False, to="FWD", k=0),
             dict(t="pcr", mn=mb, ind=False, to="BACK", k=0), dict(t="rmb", n=n2), dict(t="nop", label="FWD")]
    return dict(org=0x0600, items=items)


def nested3(a, b, c):
    items = [dict(t="nop", label="HEAD")]
    items += [dict(t="pcr", mn="LDA", ind=False, to="TAIL", k=0)] + fill(a, 2)
    items += [dict(t="pcr", mn="LDY", ind=False, to="TAIL", k=0)] + fill(b, 1)
    items += [dict(t="pcr", mn="LEAX", ind=True, to="HEAD", k=0)] + fill(c, 2)
    items += [dict(t="nop", label="TAIL"), dict(t="nop")]
    return dict(org=0x0400, items=items)


# ---------------------------------------------------------------- Hypothesis: free item lists
_gap = st.one_of(st.integers(0, 8), st.integers(100, 135), st.integers(0, 140), st.sampled_from([120, 123, 124, 125, 126, 127, 128, 129]))
_rel = st.one_of(
    st.fixed_dictionaries(dict(t=st.just("pcr"), mn=st.sampled_from(PCR1 + PCR2), ind=st.booleans(),
                               to=st.integers(0, 5), k=st.sampled_from([0, 0, 0, 1, -1, 2, -3, 7, 100, 126, 130, 200, -120, -130]),
                               rev=st.booleans(), pre=st.sampled_from(["", "", "", "", "<", ">"]))),
    st.fixed_dictionaries(dict(t=st.just("br"), mn=st.sampled_from(SHORT + LONG), to=st.integers(0, 5))))
_segment = st.tuples(_gap, st.integers(0, 2), _rel)


def _mk_program(segments, tail_gap, org, macro=None):
    items = []
    nlabels = 0
    for gap, style, rel in segments:
        if macro and gap % 3 != 0:      # this segment's filler is the included file (its size replaces the drawn gap)
            f = [dict(t="nop"), dict(t="inc", n=macro["n"])]
        else:
            f = fill(gap, style) or [dict(t="nop")]
        f[0] = dict(f[0], label="T%d" % nlabels)
        nlabels += 1
        items += f + [dict(rel)]
    f = fill(tail_gap, 1) or [dict(t="nop")]
    f[0] = dict(f[0], label="T%d" % nlabels)
    nlabels += 1
    items += f
    for it in items:
        if it["t"] in ("pcr", "br"):
            it["to"] = "T%d" % (it["to"] % nlabels)
    if macro and sum(1 for it in items if it["t"] == "inc"):
        return dict(org=org, items=items, macro=macro)
    return dict(org=org, items=items)


_program = st.builds(_mk_program, st.lists(_segment, min_size=1, max_size=6), _gap,
                     st.sampled_from([0x0000, 0x0100, 0x0E00, 0x7F80, 0xF000]))
_macro = st.fixed_dictionaries(dict(n=st.one_of(st.integers(1, 12), st.integers(30, 64), st.integers(100, 130)), style=st.integers(0, 2)))
_program_inc = st.builds(_mk_program, st.lists(_segment, min_size=2, max_size=6), _gap,
                         st.sampled_from([0x0000, 0x0100, 0x0E00, 0x7F80, 0xF000]), _macro)


def searches(tier):
    return [("programs", _program, 6000 if tier == "quick" else 300000),
            ("programs_with_include", _program_inc, 1500 if tier == "quick" else 60000)]


def execute(case):
    if case.get("numpcr"):
        return execute_numpcr(case)
    items = case["items"]
    lines = build(case)
    # layout bounds from the construction (independent of the tool)
    lo = hi = case["org"]
    pos = []
    for it in items:
        pos.append((lo, hi))
        a, b = size_bounds(it)
        lo += a
        hi += b
    label_pos = {}
    for it, p in zip(items, pos):
        if it.get("label"):
            label_pos[it["label"]] = p
    rel_idx = [i for i, it in enumerate(items) if it["t"] in ("pcr", "br")]
    labels = []
    near = False
    must_reject = False
    may_reject = False
    for i in rel_idx:
        it = items[i]
        tlo, thi = label_pos[it["to"]]
        slo, shi = pos[i]
        a, b = size_bounds(it)
        # displacement bounds: target - (addr + size)
        dmin = tlo - (shi + b) if tlo < slo else tlo - (slo + a) - (hi - lo)
        dmin = min(tlo - (shi + b), thi - (shi + b), tlo - (slo + a), thi - (slo + a))
        dmax = max(tlo - (shi + b), thi - (shi + b), tlo - (slo + a), thi - (slo + a))
        for d in (dmin, dmax):
            if min(abs(abs(d) - 127), abs(abs(d) - 128), abs(abs(d) - 32767), abs(abs(d) - 32768)) <= 8:
                near = True
        if it["t"] == "pcr" and it.get("pre") == "<" and (dmax > 127 or dmin < -128):
            may_reject = True       # a forced 8-bit offset that cannot hold the displacement
        if it["t"] == "pcr" and it.get("reg", "PCR") != "PCR":
            may_reject = True       # pcr / Pcr: the tool may insist on upper case; accepted, it is the PC-relative form
            if "pcr_lower_case" not in labels:
                labels.append("pcr_lower_case")
        if it["t"] == "br" and it.get("k", 0):
            may_reject = True       # the tool may refuse a label expression as a branch target; accepted, it must be reached
            if "branch_with_constant" not in labels:
                labels.append("branch_with_constant")
        elif it["t"] == "br" and it["mn"] in SHORT:
            if dmin > 127 or dmax < -128:
                must_reject = True
            if dmax > 127 or dmin < -128:
                may_reject = True
    if case.get("odd_label"):
        may_reject = True
        labels.append("label_begins_with_digit")
    npcr = sum(1 for i in rel_idx if items[i]["t"] == "pcr")
    if near:
        labels.append("near_limit")
    if npcr >= 2:
        labels.append("multi_pcr")
    nontrivial = near or npcr >= 2
    mlines = macro_lines(case)
    if mlines is None:
        out = driver.assemble(lines, timeout=60)
    else:
        labels.append("include")
        if sum(1 for it in items if it["t"] == "inc") >= 2:
            labels.append("include_twice")
        with driver.TempDir() as tmp:
            with open(os.path.join(tmp, MACRO_FILE), "w", newline="") as fh:
                fh.write("".join(mlines))
            out = driver.assemble(lines, timeout=60, cwd=tmp)
    if out.kind in ("CRASH", "HANG"):
        return skip("crash/hang: judged by C13 ({} {})".format(out.exc, out.frame), labels=labels)
    if out.kind == "DIAG":
        labels.append("rejected")
        if may_reject:      # some short branch cannot (or may not) reach: a diagnostic, however worded, is right
            return ok(labels=labels, nontrivial=nontrivial)
        return viol("program rejected ({}) although every short branch can reach its target: {!r}".format(
            out.message, [l.strip() for l in lines][:12]), fid="C03:unjustified-reject", labels=labels)
    if must_reject:
        return viol("short branch target out of -128..+127 was accepted: {!r}".format([l.strip() for l in lines][:12]),
                    fid="C03:short-branch-not-rejected", labels=labels)
    symbols = dict(out.symbols)
    rows = out.rows
    # listing row of every item: an INCLUDE line is replaced by the rows of the file's statements
    row_of = []
    r = 1
    for it in items:
        row_of.append(r)
        r += len(mlines) if it["t"] == "inc" else 1
    if len(rows) != r:
        return viol("listing has {} rows for {} statements".format(len(rows), r), fid="C03:rows", labels=labels)
    origin = out.origin if out.origin is not None else 0
    # where every item really is in the image: sizes of the fixed items are known, relative ones are decoded in place
    real = []
    a = origin
    for it in items:
        real.append(a)
        if it["t"] in ("pcr", "br"):
            insn = R.decode(out.image, a - origin)
            if insn is None:
                return viol("{}: bytes at image offset {} do not decode".format(item_text(it).strip(), a - origin),
                            fid="C03:malformed", labels=labels)
            a += insn.length
        else:
            a += size_bounds(it)[0]
    if a - origin != len(out.image):
        return viol("image is {} bytes, the statements add up to {}".format(len(out.image), a - origin), fid="C03:image-size", labels=labels)
    real_label = dict((it["label"], real[i]) for i, it in enumerate(items) if it.get("label"))
    for i in rel_idx:
        it = items[i]
        addr = rows[row_of[i]][0]
        nxt = rows[row_of[i] + 1][0] if row_of[i] + 1 < len(rows) else origin + len(out.image)
        insn = R.decode(out.image, addr - origin)
        text = lines[i + 1].strip()
        if addr != real[i]:
            return viol("{} is listed at ${:04X} but its bytes are at ${:04X} of the image loaded at the origin".format(
                text, addr, real[i]), fid="C03:listed-address", labels=labels)
        if insn is None:
            return viol("{}: bytes at ${:04X} do not decode".format(text, addr), fid="C03:malformed", labels=labels)
        if insn.length != nxt - addr:
            return viol("{}: decoded length {} but the listing reserves {}".format(text, insn.length, nxt - addr),
                        fid="C03:size", labels=labels)
        if insn.op != R.canon(it["mn"]):
            return viol("{}: decodes as {}".format(text, insn.op), fid="C03:wrong_op", labels=labels)
        if it["t"] == "br":
            if insn.nf[0] != "rel":
                return viol("{}: not a relative instruction: {}".format(text, insn.nf), fid="C03:mode", labels=labels)
            d = insn.nf[1]
            k = it.get("k", 0)
        else:
            if insn.nf[0] != "idx" or insn.nf[2] != "pcr" or insn.nf[4] != bool(it.get("ind")):
                return viol("{}: not encoded as the PC-relative form written: {}".format(text, insn.nf),
                            fid="C03:mode", labels=labels)
            d = insn.nf[3]
            k = it.get("k", 0)
        target = symbols.get(it["to"])
        if target is None:
            return viol("label {} missing from the symbol table".format(it["to"]), fid="C03:symbol", labels=labels)
        reach = (addr + insn.length + d) % 65536
        if target != real_label[it["to"]]:
            return viol("label {} is ${:04X} in the symbol table but the labelled statement's bytes are at ${:04X}".format(
                it["to"], target, real_label[it["to"]]), fid="C03:symbol-address", labels=labels)
        if reach != (target + k) % 65536:
            return viol("{} at ${:04X} (length {}, displacement {}) reaches ${:04X}, target {}{:+d} is ${:04X}; bytes {}".format(
                text, addr, insn.length, d if d < 32768 else d - 65536, reach, it["to"], k, (target + k) % 65536,
                out.image[addr - origin:addr - origin + insn.length].hex()), fid="C03:displacement", labels=labels)
    return ok(labels=labels, nontrivial=nontrivial)
