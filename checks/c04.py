"""C04 - symbols and two-term expressions evaluate to their arithmetic value everywhere."""
from hypothesis import strategies as st

from vlib import asmmodel as A
from vlib import driver
from vlib import ref6809 as R
from vlib.harness import ok, skip, viol

PID = "C04"
RULE = ("Program = [EQU defs] ORG o / LB NOP / <statement with the expression> / LA NOP / [EQU defs]. Positions: #imm8, "
        "#imm16, direct/extended, [extended indirect], constant index offset, label+-k,PCR, EQU operand (used through "
        "LDX #sym), FCB, FDB (single value and the middle element of a list), RMB, ORG. Expression = term op term or a single term; op in + - * /; term = decimal, $hex "
        "with 1-4 digits, an EQU symbol whose definition is spelled in any way (decimal, hex, %binary, 'char, negative) "
        "and placed before or after the use, an EQU symbol defined by an expression over another EQU that is defined after it, the label before (LB) or the label after (LA) the statement; origins 0, "
        "$F0, $1000, $7FF0, $FFE0 and constants chosen so that results land on 0, 255/256, 32767/32768, 65535/65536 "
        "and below 0. Enumerated: every position x op x 9x9 term-kind pairs on a boundary constant grid. Oracle: "
        "reference evaluation over Python integers (truncating division); x/0 must be a diagnostic; an 8-bit position "
        "holds r in -128..255 or is rejected; a 16-bit position holds r, or r mod 65536 / a rejection when r is outside "
        "0..65535; decoded operand (reference decoder / data model) must equal it. A second family uses one small symbol (label below $100 or EQU) several times in one program at different operand widths (#imm16, #imm8, <direct, >extended, index offset, [ ], FCB, FDB, FDB list) and checks every use. Metamorphic: moving every EQU to the "
        "other side of its use and re-spelling every constant leave the image unchanged. Non-trivial = expression with "
        ">= 1 symbol, or a symbol defined after its use, or a result within 1 of a width boundary; distinct by case hash.")
ASSUMPTIONS = [
    "expression terms follow the tool's documented expression syntax: decimal, $hex, symbols (no %binary / 'char / sign inside an expression)",
    "EQU-symbol,PCR and constant-expression,PCR are specified by neither README nor property and are not generated",
    "vlib/ref6809.py decodes instruction operands; FCB/FDB/RMB are read from the image directly",
]
HEALTH = {"has_symbol": 0.2, "has_label": 0.08, "op:/": 0.04, "op:*": 0.04, "pos:equ": 0.012, "boundary": 0.02}
EXHAUSTIVE = {"quick": ["13 positions x 4 operators x 9x9 term kinds x boundary constants (one constant pair per cell)"],
              "thorough": ["13 positions x 4 operators x 9x9 term kinds x 6 boundary constant pairs"]}

POSITIONS = ["imm8", "imm16", "mem", "extind", "idx", "pcr", "equ", "fcb", "fdb", "fcblist", "fdblist", "rmb", "org"]
OPS = ["+", "-", "*", "/"]
TERM_KINDS = ["dec", "hex", "equ_before", "equ_after", "lb", "la", "equ_neg", "equ_chain_rev", "equ_chain_after"]
ORGS = [0x0000, 0x00F0, 0x1000, 0x7FF0, 0xFFE0]
CONSTS = [0, 1, 2, 3, 5, 15, 16, 127, 128, 255, 256, 257, 1000, 4096, 32767, 32768, 65535]
PAIRS = [(5, 2), (255, 1), (256, 1), (32767, 1), (65535, 1), (2, 0), (1000, 3), (128, 2), (16, 16)]


NAME_PAIRS = [("BPCRT", "XPCR"), ("AB", "XY"), ("PCRTAB", "DPR"), ("SPCRT", "PCX")]


def enumerated(tier, seed):
    pairs = PAIRS[:1] if tier == "quick" else PAIRS[:6]
    n = 0
    for pos in POSITIONS:
        for op in OPS:
            for lk in TERM_KINDS:
                for rk in TERM_KINDS:
                    for (a, b) in pairs:
                        n += 1
                        yield dict(pos=pos, op=op, l=dict(k=lk, v=a, sp=n % 5), r=dict(k=rk, v=b, sp=(n // 5) % 5), org=ORGS[n % 5], single=False)
                        if ("lb" in (lk, rk) or "la" in (lk, rk)) and op in "+-" and pos in ("imm16", "mem", "extind", "idx", "pcr", "fdb", "fdblist"):
                            # the same with labels whose names look like registers / contain PCR: a name is a name
                            yield dict(pos=pos, op=op, l=dict(k=lk, v=a, sp=n % 5), r=dict(k=rk, v=b, sp=(n // 5) % 5), org=ORGS[n % 5], single=False,
                                       names=NAME_PAIRS[n % len(NAME_PAIRS)])
        for lk in TERM_KINDS:
            for v in (0, 5, 255, 256, 4660, 65535):
                yield dict(pos=pos, op="+", l=dict(k=lk, v=v, sp=v % 5), r=dict(k="dec", v=0, sp=0), org=ORGS[v % 5], single=True)
    for case in _multi_cases():
        yield case


# one symbol used several times in one program, at different operand widths
USES = ["imm16", "imm8", "direct", "extended", "mem", "idx", "extind", "fdb", "fcb", "fdblist"]


def _multi_cases():
    import itertools
    for kind, v in (("lb", None), ("la", None), ("equ_before", 5), ("equ_after", 200), ("equ_before", 255)):
        for org in (0x0000, 0x0010, 0x0070):
            for uses in itertools.permutations(USES[:7], 2):
                yield dict(pos="multi", kind=kind, v=v, org=org, uses=list(uses))
            for uses in (["imm16", "imm8", "fdb", "fcb"], ["fcb", "fdb", "imm8", "imm16"], ["direct", "extended", "idx", "extind", "mem"],
                         ["fdblist", "imm8", "imm16"], ["imm8", "fdblist", "direct"]):
                yield dict(pos="multi", kind=kind, v=v, org=org, uses=uses)


_const = st.one_of(st.sampled_from(CONSTS), st.integers(0, 65535), st.integers(0, 300))
_term = st.fixed_dictionaries(dict(k=st.sampled_from(TERM_KINDS), v=_const, sp=st.integers(0, 7)))
_multi = st.fixed_dictionaries(dict(pos=st.just("multi"), kind=st.sampled_from(["lb", "la", "equ_before", "equ_after"]),
                                    v=st.integers(0, 255), org=st.sampled_from([0, 0x10, 0x40, 0x80]),
                                    uses=st.lists(st.sampled_from(USES), min_size=2, max_size=6)))
_case = st.fixed_dictionaries(dict(pos=st.sampled_from(POSITIONS), op=st.sampled_from(OPS), l=_term, r=_term,
                                   org=st.sampled_from(ORGS), single=st.sampled_from([False, False, False, True])))


def searches(tier):
    return [("expressions", _case, 80000 if tier == "quick" else 2000000), ("multi_use", _multi, 4000 if tier == "quick" else 100000)]


def _equ_spelling(v, spi):
    sps = A.spellings(v)
    return sps[spi % len(sps)][1]


def build(case, swap_equ=False, respell=False):
    """-> (lines, index of the statement row, terms [(text, kind, value-or-label)], layout info)"""
    pre, post = [], []
    terms = []
    for side, t in (("L", case["l"]), ("R", case["r"])):
        k, v = t["k"], t["v"]
        spi = t["sp"] + (3 if respell else 0)
        if k == "dec":
            text = str(v) if not respell else "$%X" % v
            terms.append((text, "const", v))
        elif k == "hex":
            digits = "%X" % v
            width = max(len(digits), 1 + (spi % 4))
            text = "$" + digits.rjust(min(width, 4), "0") if not respell else str(v)
            terms.append((text, "const", v))
        elif k in ("equ_before", "equ_after", "equ_neg"):
            name = "ZQ" + side
            val = -(v % 129) if k == "equ_neg" else v
            line = A.line(name, "EQU", _equ_spelling(val, spi))
            before = (k != "equ_after")
            if swap_equ:
                before = not before
            (pre if before else post).append(line)
            terms.append((name, "const", val))
        elif k in ("equ_chain_rev", "equ_chain_after"):
            # the symbol is defined by an expression over another EQU symbol; the inner definition comes last
            name, inner = "ZQ" + side, "ZX" + side
            b = 1 + spi % 7
            outer_line = A.line(name, "EQU", "{}+{}".format(inner, b) if v >= b else "{}-{}".format(inner, b))
            inner_line = A.line(inner, "EQU", _equ_spelling(v - b if v >= b else v + b, spi))
            before = (k == "equ_chain_rev")
            if swap_equ:
                before = not before
            (pre if before else post).extend([outer_line, inner_line])
            terms.append((name, "const", v))
        elif k == "lb":
            terms.append(("ZZB", "lb", None))
        else:
            terms.append(("ZZA", "la", None))
        if case["single"]:
            break
    expr = terms[0][0] if case["single"] else terms[0][0] + case["op"] + terms[1][0]
    pos = case["pos"]
    extra_after = []
    if pos == "imm8":
        stmt = A.line("", "LDA", "#" + expr)
    elif pos == "imm16":
        stmt = A.line("", "LDX", "#" + expr)
    elif pos == "mem":
        stmt = A.line("", "LDA", expr)
    elif pos == "extind":
        stmt = A.line("", "LDA", "[" + expr + "]")
    elif pos == "idx":
        stmt = A.line("", "LDA", expr + ",X")
    elif pos == "pcr":
        stmt = A.line("", "LDA", expr + ",PCR")
    elif pos == "equ":
        stmt = A.line("ZZE", "EQU", expr)
        extra_after = [A.line("", "LDX", "#ZZE")]
    elif pos == "fcb":
        stmt = A.line("", "FCB", expr)
    elif pos == "fdb":
        stmt = A.line("", "FDB", expr)
    elif pos == "fcblist":
        stmt = A.line("", "FCB", "$7E," + expr + ",1")
    elif pos == "fdblist":
        stmt = A.line("", "FDB", "$7E01," + expr + ",1")
    elif pos == "rmb":
        stmt = A.line("", "RMB", expr)
    else:
        stmt = A.line("", "ORG", expr)
    if pos == "org":
        lines = pre + [stmt, A.line("ZZB", "NOP"), A.line("ZZA", "NOP")] + post
        row = len(pre)
    else:
        lines = pre + [A.line("", "ORG", "$%04X" % case["org"]), A.line("ZZB", "NOP"), stmt] + extra_after + [A.line("ZZA", "NOP")] + post
        row = len(pre) + 2
    return lines, row, terms


def build_multi(case):
    """several statements that all use the same symbol SYM (a label below $100 or a small EQU); returns lines, uses"""
    sym = {"lb": "ZZB", "la": "ZZA"}.get(case["kind"], "ZQM")
    pre, post = [], []
    if case["kind"].startswith("equ"):
        (pre if case["kind"] == "equ_before" else post).append(A.line("ZQM", "EQU", str(case["v"])))
    body = []
    for u in case["uses"]:
        body.append({"imm16": A.line("", "LDX", "#" + sym), "imm8": A.line("", "LDA", "#" + sym), "direct": A.line("", "LDA", "<" + sym),
                     "extended": A.line("", "LDA", ">" + sym), "mem": A.line("", "LDB", sym), "idx": A.line("", "LDA", sym + ",X"),
                     "extind": A.line("", "LDA", "[" + sym + "]"), "fdb": A.line("", "FDB", sym), "fcb": A.line("", "FCB", sym),
                     "fdblist": A.line("", "FDB", "1," + sym + ",2")}[u])
    lines = pre + [A.line("", "ORG", "$%04X" % case["org"]), A.line("ZZB", "NOP")] + body + [A.line("ZZA", "NOP")] + post
    return lines, sym


def execute_multi(case):
    lines, sym = build_multi(case)
    labels = ["pos:multi", "has_symbol"] + (["has_label"] if sym != "ZQM" else [])
    out = driver.assemble(lines, timeout=60)
    if out.kind in ("CRASH", "HANG"):
        return skip("crash/hang: judged by C13", labels=labels)
    ctx = " source={!r}".format([l.strip() for l in lines])
    if out.kind == "DIAG":
        # only allowed when the symbol's value cannot be below 256 (a label after 8-bit uses may pass $FF)
        return viol("program using one small symbol several times rejected: {}.".format(out.message) + ctx, fid="C04:multi:rejected", labels=labels) \
            if case["org"] + 4 * len(case["uses"]) + 2 < 256 else ok(labels=labels + ["rejected"], nontrivial=True)
    syms = dict(out.symbols)
    value = syms.get(sym)
    if value is None:
        return viol("symbol missing." + ctx, fid="C04:multi:symbols", labels=labels)
    origin = out.origin or 0
    pos = syms["ZZB"] + 1 - origin
    image = out.image
    for u in case["uses"]:
        if u in ("fdb", "fcb", "fdblist"):
            n = {"fdb": 2, "fcb": 1, "fdblist": 6}[u]
            got = image[pos:pos + n]
            want = {"fdb": value.to_bytes(2, "big"), "fcb": bytes([value & 0xFF]), "fdblist": b"\x00\x01" + value.to_bytes(2, "big") + b"\x00\x02"}[u]
            if value > 255 and u == "fcb":
                return viol("FCB of a value above 255 accepted." + ctx, fid="C04:multi:range", labels=labels)
            if got != want:
                return viol("use '{}' of {} = ${:X} emitted {}, expected {}.".format(u, sym, value, got.hex(), want.hex()) + ctx,
                            fid="C04:multi:value", labels=labels)
            pos += n
            continue
        insn = R.decode(image, pos)
        if insn is None:
            return viol("use '{}' of {}: bytes {} are not an instruction.".format(u, sym, image[pos:pos + 5].hex()) + ctx,
                        fid="C04:multi:malformed", labels=labels)
        nf = insn.nf
        got = nf[1] if nf[0] in ("imm", "mem") else nf[3]
        okay = {"imm16": nf[0] == "imm" and nf[2] == 2, "imm8": nf[0] == "imm" and nf[2] == 1, "direct": nf[0] == "mem" and nf[2] == "dir",
                "extended": nf[0] == "mem" and nf[2] == "ext", "mem": nf[0] == "mem", "idx": nf[0] == "idx" and nf[2] == "off" and nf[1] == "X",
                "extind": nf[0] == "idx" and nf[2] == "extind"}[u]
        if not okay or got != value:
            return viol("use '{}' of {} = ${:X}: bytes {} decode as {}.".format(u, sym, value, image[pos:pos + insn.length].hex(), nf) + ctx,
                        fid="C04:multi:value", labels=labels)
        pos += insn.length
    if pos != syms["ZZA"] - origin:
        return viol("statements add up to {} bytes but the label after them is at offset {}.".format(pos, syms["ZZA"] - origin) + ctx,
                    fid="C04:multi:layout", labels=labels)
    return ok(labels=labels, nontrivial=True)


def render(case):
    if case["pos"] == "multi":
        return dict(case=case, source=[l.rstrip("\n") for l in build_multi(case)[0]])
    lines, row, terms = build(case)
    for old, new in (zip(("ZZB", "ZZA"), case["names"]) if case.get("names") else ()):
        lines = [l.replace(old, new) for l in lines]
    return dict(case=case, source=[l.rstrip("\n") for l in lines])


def evaluate(case, terms, lb, la):
    vals = []
    for text, kind, v in terms:
        vals.append(lb if kind == "lb" else la if kind == "la" else v)
    if case["single"]:
        return vals[0]
    a, b = vals
    op = case["op"]
    if op == "+":
        return a + b
    if op == "-":
        return a - b
    if op == "*":
        return a * b
    if b == 0:
        return None
    q = abs(a) // abs(b)
    return q if (a >= 0) == (b >= 0) else -q


def execute(case):
    if case["pos"] == "multi":
        return execute_multi(case)
    pos = case["pos"]
    lines, row, terms = build(case)
    rename = dict(zip(("ZZB", "ZZA"), case["names"])) if case.get("names") else {}
    for old, new in rename.items():
        lines = [l.replace(old, new) for l in lines]
    kinds = [t[1] for t in terms]
    labels = ["pos:" + pos, "op:" + ("single" if case["single"] else case["op"])]
    has_symbol = any(not t[0][0].isdigit() and t[0][0] != "$" for t in terms)
    if has_symbol:
        labels.append("has_symbol")
    has_label = "lb" in kinds or "la" in kinds
    if has_label:
        labels.append("has_label")
    if pos == "pcr" and not (has_label and (case["single"] or (case["op"] in "+-" and kinds.count("const") == 1 and kinds[0] != "const"))):
        return skip("PCR target other than label / label+-k is not specified", labels=labels)
    if pos in ("org", "rmb") and has_label:
        return skip("ORG / RMB defined in terms of a label whose address depends on it", labels=labels)
    out = driver.assemble(lines, timeout=60)
    if out.kind in ("CRASH", "HANG"):
        return skip("crash/hang: judged by C13 ({} {})".format(out.exc, out.frame), labels=labels)
    src = lines[row].strip()
    ctx = " source={!r}".format([l.strip() for l in lines])
    fid = "C04:{}:".format(pos)

    if pos == "rmb" and "la" in kinds:
        return skip("RMB sized by the label that follows it is circular", labels=labels)
    if out.kind == "DIAG":
        # the rejection is allowed when, for some possible address of the label after the statement, the value is
        # not representable in the position (or the division is by zero)
        org = case["org"]
        candidates = [evaluate(case, terms, org, la) for la in range(org + 1, org + 9)]
        allowed = False
        for r in candidates:
            if r is None:
                allowed = True
            elif pos in ("imm8", "fcb", "fcblist"):
                allowed = allowed or not -128 <= r <= 255
            elif pos == "rmb":
                allowed = allowed or r < 0 or org + 2 + r > 65535
            elif pos == "org":
                allowed = allowed or not 0 <= r <= 65530     # the two helper NOPs must still fit below $FFFF
            else:
                allowed = allowed or not 0 <= r <= 65535
        if allowed:
            return ok(labels=labels + ["rejected"], nontrivial=has_symbol)
        return viol("{!r} rejected ({}) although its value {} is representable.".format(
            src, out.message, sorted(set(c for c in candidates if c is not None))) + ctx,
            fid=fid + "rejected:" + (out.message or "").split("]")[-1].strip()[:30], labels=labels)
    back = dict((new, old) for old, new in rename.items())
    syms = dict((back.get(k, k), v) for k, v in out.symbols)
    lb, la = syms.get("ZZB"), syms.get("ZZA")
    if lb is None or la is None:
        return viol("helper labels missing from the symbol table." + ctx, fid=fid + "symbols", labels=labels)
    image = out.image
    origin = out.origin if out.origin is not None else 0
    # locate the statement's bytes: after the LB NOP
    if pos == "org":
        r = evaluate(case, terms, None, None)
        if r is None:
            return viol("{!r}: division by zero accepted.".format(src) + ctx, fid=fid + "div0", labels=labels)
        if r is not None and r > 65530:
            return skip("origin too close to $FFFF for the helper statements", labels=labels)
        if not 0 <= r <= 65535:
            if out.origin is not None and out.origin == r % 65536:
                return ok(labels=labels, nontrivial=has_symbol)
            return viol("{!r}: origin {} outside 0..65535 accepted as {}.".format(src, r, out.origin) + ctx, fid=fid + "range", labels=labels)
        if out.origin != r or lb != r:
            return viol("{!r}: origin is ${:04X}, expression evaluates to ${:04X}.".format(src, out.origin or 0, r) + ctx, fid=fid + "value", labels=labels)
        return ok(labels=labels, nontrivial=has_symbol)
    start = lb + 1 - origin
    end = la - origin
    body = image[start:end]
    if len(image) != end + 1 or image[end:end + 1] != b"\x12":
        # the NOP labelled ZZA is the last byte-emitting statement: the bytes in front of it are exactly those reserved
        return viol("{!r}: the image has {} bytes, the statements reserve {} (ZZA at ${:04X}): {}.".format(
            src, len(image), end + 1, la, image.hex()[:80]) + ctx, fid=fid + "image-size", labels=labels)
    r = evaluate(case, terms, lb, la)
    if r is None:
        return viol("{!r}: division by zero accepted (bytes {}).".format(src, body.hex()) + ctx, fid=fid + "div0", labels=labels)
    boundary = min(abs(r - b) for b in (0, 255, 256, 32767, 32768, 65535, 65536, -128, -129)) <= 1
    if boundary:
        labels.append("boundary")
    nontrivial = has_symbol or boundary
    got = None
    width = 2
    if pos in ("fcb", "fdb", "fcblist", "fdblist"):
        width = 1 if pos.startswith("fcb") else 2
        if pos.endswith("list"):
            # the expression is the middle element of a three-element list
            if len(body) != 3 * width or body[:width] != (b"\x7e" if width == 1 else b"\x7e\x01") or int.from_bytes(body[2 * width:], "big") != 1:
                return viol("{!r}: list emitted as {}.".format(src, body.hex()) + ctx, fid=fid + "size", labels=labels)
            body = body[width:2 * width]
        if len(body) != width:
            return viol("{!r}: emitted {} bytes ({}).".format(src, len(body), body.hex()) + ctx, fid=fid + "size", labels=labels)
        got = int.from_bytes(body, "big")
    elif pos == "rmb":
        if not 0 <= r:
            return viol("{!r}: negative size {} accepted.".format(src, r) + ctx, fid=fid + "range", labels=labels)
        if len(body) != r or any(body):
            return viol("{!r}: reserved {} bytes, expression evaluates to {}.".format(src, len(body), r) + ctx, fid=fid + "value", labels=labels)
        return ok(labels=labels, nontrivial=nontrivial)
    else:
        insn = R.decode(image, start)
        if pos == "equ":
            if len(body) != 3 or insn is None or insn.nf[0] != "imm":
                return viol("{!r} then LDX #ZZE: bytes {} unexpected.".format(src, body.hex()) + ctx, fid=fid + "shape", labels=labels)
            got = insn.nf[1]
            if syms.get("ZZE") is None or (syms["ZZE"] - r) % 65536 != 0 and not (r < 0 and syms["ZZE"] == r % 256):
                return viol("{!r}: symbol table shows ZZE = {}, expression evaluates to {}.".format(src, syms.get("ZZE"), r) + ctx,
                            fid=fid + "symbol-value", labels=labels)
        else:
            if insn is None or insn.length != len(body):
                return viol("{!r}: bytes {} are not one instruction.".format(src, body.hex()) + ctx, fid=fid + "malformed", labels=labels)
            nf = insn.nf
            if pos == "imm8":
                width = 1
                got = nf[1] if nf[0] == "imm" and nf[2] == 1 else None
            elif pos == "imm16":
                got = nf[1] if nf[0] == "imm" and nf[2] == 2 else None
            elif pos == "mem":
                got = nf[1] if nf[0] == "mem" else None
            elif pos == "extind":
                got = nf[3] if nf[0] == "idx" and nf[2] == "extind" else None
            elif pos == "idx":
                got = nf[3] if nf[0] == "idx" and nf[1] == "X" and nf[2] == "off" else None
            elif pos == "pcr":
                if nf[0] != "idx" or nf[2] != "pcr":
                    got = None
                else:
                    got = (lb + 1 + insn.length + nf[3]) % 65536     # address reached
            if got is None:
                return viol("{!r}: bytes {} decode as {} - not the written addressing mode.".format(src, body.hex(), insn.nf) + ctx,
                            fid=fid + "mode", labels=labels)
    if width == 1:
        if not -128 <= r <= 255:
            return viol("{!r}: value {} does not fit 8 bits but was accepted as ${:02X}.".format(src, r, got) + ctx, fid=fid + "range8", labels=labels)
        want = r % 256
    else:
        want = r % 65536
    if got != want:
        return viol("{!r}: encodes ${:X}, expression evaluates to {} (${:X}); LB=${:04X} LA=${:04X}.".format(src, got, r, want, lb, la) + ctx,
                    fid=fid + "value", labels=labels)
    # metamorphic side checks: same encoded value (same image where the width is fixed by the position; for direct /
    # extended and index offsets any width is interchangeable, so only the accepted/encoded value is compared above)
    fixed_width = pos in ("imm8", "imm16", "extind", "fcb", "fdb", "fcblist", "fdblist", "equ")
    variants = [("spelling", dict(respell=True))]
    if any(t["k"].startswith("equ") for t in (case["l"], case["r"])):
        variants.append(("definition-order", dict(swap_equ=True)))
    for name, kw in variants:
        alt = driver.assemble(build(case, **kw)[0], timeout=60)
        if alt.kind != "OK":
            return viol("{!r}: accepted, but rejected after changing only the {} ({}).".format(src, name, alt.message) + ctx,
                        fid=fid + name, labels=labels)
        if fixed_width and alt.image != image:
            return viol("{!r}: changing only the {} changes the emitted bytes {} -> {}.".format(src, name, image.hex(), alt.image.hex()) + ctx,
                        fid=fid + name, labels=labels)
        if not fixed_width and len(alt.image) == len(image) and alt.image != image:
            return viol("{!r}: changing only the {} changes the emitted bytes {} -> {}.".format(src, name, image.hex(), alt.image.hex()) + ctx,
                        fid=fid + name, labels=labels)
    return ok(labels=labels, nontrivial=nontrivial)
