"""C05 - data directives emit exactly the bytes they specify."""
from hypothesis import strategies as st

from vlib import asmmodel as A
from vlib import driver
from vlib.harness import ok, skip, viol

PID = "C05"
RULE = ("Program = [EQU defs] ORG o / [label defs] / <directive> / ZZN NOP / [defs after]. Directives: FCB and FDB lists of "
        "1-64 elements, each a literal in any spelling, a negative number, an EQU symbol (defined before or after), "
        "a label, a label plus or minus an EQU constant of either sign, two labels combined (ZZB-ZZA), or a two-term constant expression; out-of-width elements planted in some cases; FCC with every printable non-blank delimiter and strings "
        "of printable ASCII of length 0-255 (letters only / single spaces / runs of spaces / leading or trailing space "
        "/ ';' / punctuation / the other quote), with and without a trailing '; comment'; RMB n on a boundary grid and "
        "uniform in 0..65535; EQU ORG SETDP NAM END (with and without operand) and INCLUDE of an empty file as no-byte "
        "directives. Oracle: image = exactly the expected bytes + the sentinel NOP; reserved size (sentinel address - "
        "directive address) = byte count; unrepresentable values rejected. Enumerated: every delimiter x a string "
        "catalogue, single values on the boundary grid in every spelling, RMB grid; hex literals with a-f digits in lower and mixed case ($ff, $bEeF) for FCB / FDB (alone, in a list, through an EQU) and RMB; pairs of statements naming one "
        "label below $100 (7 data forms beside 14 data / instruction forms, both orders, label at $10 / $80 / $F0), "
        "each data directive judged on its own bytes. Non-trivial = list length >= 2 or "
        "a negative / symbol element; string with a blank, punctuation or length >= 11; n >= 256; distinct by case hash.")
ASSUMPTIONS = [
    "the expected bytes come from the directive model in this file (two's complement at the directive's width, high byte first)",
    "an FCC string cannot contain its own delimiter; the delimiter is the first non-blank character of the operand",
]
HEALTH = {"dir:FCB": 0.04, "dir:FDB": 0.04, "dir:FCC": 0.06, "dir:RMB": 200, "has_symbol": 0.02, "must_reject": 0.008, "lower_case_hex": 100}
EXHAUSTIVE = {"quick": ["FCC: 94 delimiters x 14 catalogue strings", "FCB/FDB single value: boundary grid x every spelling",
                        "RMB: boundary grid", "hex literals with a-f digits in lower / mixed case: FCB, FDB (alone, in a list, through an EQU), RMB"], "thorough": ["as quick"]}

PRINTABLE = "".join(chr(c) for c in range(0x20, 0x7F))
DELIMS = [c for c in PRINTABLE if c != " "]
CATALOGUE = ["", "A", "HELLO", "HELLO WORLD", "A  B", "   ", " LEAD", "TRAIL ", "A;B", "; c", "X,Y+[1]", "it's \"q\"",
             "0123456789ABCDEF0123456789", "a b  c   d    e"]
RMB_GRID = [0, 1, 2, 5, 10, 255, 256, 257, 1000, 4096, 32767, 32768, 65535]
ORG = 0x1000

_elem = st.one_of(
    st.tuples(st.just("lit"), st.one_of(st.sampled_from(A.BOUNDARY), st.integers(-32768, 65535), st.integers(-130, 260)),
              st.integers(0, 7)),
    st.tuples(st.just("equ_before"), st.one_of(st.sampled_from(A.BOUNDARY), st.integers(-200, 70000)), st.integers(0, 7)),
    st.tuples(st.just("equ_after"), st.one_of(st.sampled_from(A.BOUNDARY), st.integers(-200, 70000)), st.integers(0, 7)),
    st.tuples(st.just("label"), st.integers(0, 2), st.integers(0, 7)),
    st.tuples(st.just("labelsym"), st.integers(-6, 6), st.integers(0, 7)),
    st.tuples(st.just("expr"), st.one_of(st.integers(-300, 70000), st.sampled_from(A.BOUNDARY)), st.integers(0, 200)))


def _mk_list(directive, elems, fit, comment):
    width = 1 if directive == "FCB" else 2
    lo, hi = (-128, 255) if width == 1 else (-32768, 65535)
    out = []
    for kind, v, spi in elems:
        if kind == "label":
            out.append(dict(kind="label", idx=v))
            continue
        if kind == "labelsym":      # label +- symbol, the symbol an EQU constant of either sign defined before or after
            out.append(dict(kind="labelsym", idx=spi % 2, c=v, op="+-"[(spi >> 1) % 2], after=bool((spi >> 2) % 2)))
            continue
        if kind == "expr":
            # a two-term constant expression with value v: a+b, a-b or a*b over decimal / hex terms
            v = max(-32768, min(65535, v))
            if fit and not lo <= v <= hi:
                v = lo + (v - lo) % (hi - lo + 1)
            b = spi % 17
            if spi % 3 == 0 and v - b >= 0:
                text = "{}+{}".format(v - b, b)
            elif spi % 3 == 1 and 0 <= v + b <= 65535:
                text = "${:X}-{}".format(v + b, b)
            elif v >= 0 and b > 1 and v % b == 0:
                text = "{}*{}".format(v // b, b)
            elif v >= 0:
                text = "{}+0".format(v)
            else:
                text = "0-{}".format(-v)
            out.append(dict(kind="expr", v=v, text=text))
            continue
        v = max(-32768, min(65535, v))
        if fit and not lo <= v <= hi:
            v = lo + (v - lo) % (hi - lo + 1)
        sps = A.spellings(v)
        out.append(dict(kind=kind, v=v, sp=sps[spi % len(sps)][0]))
    return dict(dir=directive, elems=out, comment=comment)


_list_case = st.builds(_mk_list, st.sampled_from(["FCB", "FDB"]),
                       st.one_of(st.lists(_elem, min_size=1, max_size=6), st.lists(_elem, min_size=1, max_size=64)),
                       st.sampled_from([True, True, True, False]), st.sampled_from([None, None, "note"]))

_ALNUM = "ABCDEFGHIJKLMNOPQRSTUVWXYZabcdefghijklmnopqrstuvwxyz0123456789"


def _shape_text(text, cls, rep):
    """one alphabet for Hypothesis (shrinks cleanly); the class decides which characters survive"""
    if cls == 0:
        text = "".join(_ALNUM[ord(c) % len(_ALNUM)] for c in text)
    elif cls == 1:
        text = "".join("ABCab12 "[ord(c) % 8] for c in text)
    elif cls == 2:
        text = "".join("AB  ;"[ord(c) % 5] for c in text)
    elif cls == 4:
        text = (text or "x") * (1 + 255 // max(1, len(text)))
        text = text[:200 + rep % 56]
    elif cls == 5:
        text = CATALOGUE[rep % len(CATALOGUE)]
    return text


_str_classes = st.builds(_shape_text, st.text(alphabet=PRINTABLE, max_size=60), st.integers(0, 5), st.integers(0, 255))
_fcc_case = st.builds(lambda d, t, c: dict(dir="FCC", delim=d, text=t.replace(d, "-" if d == "_" else "_"), comment=c),
                      st.sampled_from(DELIMS), _str_classes, st.sampled_from([None, None, "note", "a ; b", "\"q\""]))
_rmb_case = st.builds(lambda n, spi: dict(dir="RMB", n=n, sp=A.spellings(n)[spi % len(A.spellings(n))][0]),
                      st.one_of(st.sampled_from(RMB_GRID[:10]), st.integers(0, 600), st.integers(0, 600), st.integers(0, 5000),
                                st.integers(0, 5000), st.integers(0, 65535)), st.integers(0, 7))
# no-byte directives with every kind of operand: literal, label (before / after), label expression, nothing
NOBYTE = [
    dict(dir="EQU", operand="$1234", label="ZZE"), dict(dir="EQU", operand="5", label="ZZE"), dict(dir="ORG", operand="$1002"),
    dict(dir="SETDP", operand="$00"), dict(dir="SETDP", operand="0"), dict(dir="NAM", operand="MYPROG"), dict(dir="NAM", operand="x"),
    dict(dir="END", operand=""), dict(dir="END", operand="ZZN"), dict(dir="INCLUDE", operand="empty.asm"),
    dict(dir="EQU", operand="ZZN", label="ZZE"), dict(dir="EQU", operand="ZZA", label="ZZE"), dict(dir="EQU", operand="ZZN-ZZA", label="ZZE"),
    dict(dir="EQU", operand="ZZA+1", label="ZZE"), dict(dir="EQU", operand="-1", label="ZZE"), dict(dir="EQU", operand="3*4", label="ZZE"),
    dict(dir="SETDP", operand="ZZN"), dict(dir="SETDP", operand="ZZA"), dict(dir="SETDP", operand="ZZA/256"), dict(dir="SETDP", operand="ZZN/256"),
    dict(dir="SETDP", operand="$10"), dict(dir="SETDP", operand="8+8"), dict(dir="SETDP", operand=""),
    dict(dir="END", operand="ZZA"), dict(dir="END", operand="ZZA+1"), dict(dir="END", operand="$1000"),
    dict(dir="NAM", operand="ZZA"), dict(dir="NAM", operand="ZZN"), dict(dir="ORG", operand="")]
_nobyte_case = st.sampled_from(NOBYTE)


def _spell(v, tag):
    """A.spell plus hex digits in lower / mixed case ($ff, $bEeF): the tool reads hex literals in either case"""
    if tag == "hexlc":
        return "$" + ("%X" % v).lower()
    if tag == "hexmc":
        h = "%04X" % v
        return "$" + "".join(c.lower() if i % 2 else c for i, c in enumerate(h))
    return A.spell(v, tag)


LOWER_HEX = [0x0A, 0x0F, 0xA0, 0xAB, 0xFE, 0xFF, 0x1C, 0xD3]
LOWER_HEX16 = [0xBEEF, 0x0ABC, 0xFFFF, 0xA000, 0x00FA, 0x1E2D, 0xC0DE]


def enumerated(tier, seed):
    # hex literals with a-f digits in lower or mixed case, alone, in lists, through an EQU, and as an RMB count
    for tag in ("hexlc", "hexmc"):
        for directive, vals in (("FCB", LOWER_HEX), ("FDB", LOWER_HEX + LOWER_HEX16)):
            for v in vals:
                for kind in ("lit", "equ_before", "equ_after"):
                    yield dict(dir=directive, elems=[dict(kind=kind, v=v, sp=tag)], comment=None, lower_hex=True)
                yield dict(dir=directive, elems=[dict(kind="lit", v=1, sp="dec"), dict(kind="lit", v=v, sp=tag), dict(kind="lit", v=2, sp="hex2")],
                           comment=None, lower_hex=True)
        for nn in LOWER_HEX + [0x1AB, 0xA00]:
            yield dict(dir="RMB", n=nn, sp=tag, lower_hex=True)
    for d in DELIMS:
        for t in CATALOGUE:
            if d not in t:
                yield dict(dir="FCC", delim=d, text=t, comment=None)
                if d == '"' or d == "/":
                    yield dict(dir="FCC", delim=d, text=t, comment="trailing")
    for directive, lo, hi in (("FCB", -128, 255), ("FDB", -32768, 65535)):
        for v in A.BOUNDARY:
            for tag, _ in A.spellings(v):
                for kind in ("lit", "equ_before", "equ_after"):
                    yield dict(dir=directive, elems=[dict(kind=kind, v=v, sp=tag)], comment=None)
                    yield dict(dir=directive, elems=[dict(kind="lit", v=1, sp="dec"), dict(kind=kind, v=v, sp=tag)], comment=None)
    for n in RMB_GRID:
        for tag, _ in A.spellings(n):
            yield dict(dir="RMB", n=n, sp=tag)
    for c in NOBYTE:
        yield c
    yield from pair_cases()
    # a label with an EQU constant of either sign added or subtracted, alone and inside a list
    for c in (-300, -3, -1, 0, 2, 255):
        for op in "+-":
            for after in (False, True):
                for idx in (0, 1):
                    e = dict(kind="labelsym", idx=idx, c=c, op=op, after=after)
                    yield dict(dir="FDB", elems=[e], comment=None)
                    yield dict(dir="FDB", elems=[dict(kind="lit", v=1, sp="dec"), e, dict(kind="label", idx=0)], comment=None)
                    yield dict(dir="FCB", elems=[e], comment=None)
    # two labels in one element (a table length, END-START), alone, in a list, and through an EQU symbol
    for op in ("-", "+", "r"):
        e = dict(kind="lablab", op=op)
        for directive in ("FCB", "FDB"):
            yield dict(dir=directive, elems=[e], comment=None)
            yield dict(dir=directive, elems=[dict(kind="lit", v=1, sp="dec"), e, dict(kind="lit", v=2, sp="hex2")], comment=None)
    # lists of 64 elements in their longest spellings (operand fields of 250-640 characters)
    for directive, width in (("FCB", 1), ("FDB", 2)):
        for kind, v, sp in (("lit", 255, "bin8"), ("lit", 200, "hex4"), ("lit", -100, "dec"), ("lit", 255, "dec"), ("equ_before", 77, "dec"),
                            ("lit", 65535 if width == 2 else 255, "dec"), ("lit", 4660 if width == 2 else 18, "hex4")):
            for n in (40, 52, 64):
                yield dict(dir=directive, elems=[dict(kind=kind, v=(v + i) % 256 if v >= 0 and width == 1 else v, sp=sp) for i in range(n)], comment=None)


# two statements naming one label that lies below $100: each data directive must emit the label at its own width,
# whatever width the other statement uses it at
_PAIR_DATA = {"FCB ZZL": lambda a: bytes([a]), "FDB ZZL": lambda a: bytes([0, a]), "FCB ZZL,1": lambda a: bytes([a, 1]),
              "FDB ZZL,1": lambda a: bytes([0, a, 0, 1]), "FCB 1,ZZL+1": lambda a: bytes([1, a + 1]), "FDB ZZL-1": lambda a: bytes([0, a - 1]),
              "FDB 2,ZZL": lambda a: bytes([0, 2, 0, a])}
_PAIR_OTHER = ["JMP ZZL", "JMP >ZZL", "LDX #ZZL", "LDA #ZZL", "LDA <ZZL", "LDA ZZL,X", "LDA [ZZL]"]


def pair_cases():
    stmts = list(_PAIR_DATA) + _PAIR_OTHER
    for org in (0x0010, 0x0080, 0x00F0):
        for a in _PAIR_DATA:
            for b in stmts:
                yield dict(dir="PAIR", org=org, a=a, b=b, first=True)
                yield dict(dir="PAIR", org=org, a=a, b=b, first=False)


def execute_pair(case):
    first, second = (case["a"], case["b"]) if case["first"] else (case["b"], case["a"])
    lines = [A.line("", "ORG", "$%04X" % case["org"]), A.line("ZZL", "NOP")] + [A.line("", *t.split(" ", 1)) for t in (first, second)] \
        + [A.line("ZZN", "NOP")]
    labels = ["dir:PAIR"]
    out = driver.assemble(lines)
    if out.kind in ("CRASH", "HANG"):
        return skip("crash/hang: judged by C13 ({} {})".format(out.exc, out.frame), labels=labels)
    if out.kind == "DIAG":
        return viol("{!r} / {!r} with the label at ${:04X} rejected: {}".format(first, second, case["org"], out.message),
                    fid="C05:PAIR:rejected", labels=labels)
    if len(out.rows) != 5 or any(r[0] is None for r in out.rows[1:]):
        return viol("listing unreadable", fid="C05:PAIR:listing", labels=labels)
    for idx, text in ((2, first), (3, second)):
        if text in _PAIR_DATA:
            want = _PAIR_DATA[text](case["org"])
            lo, hi = out.rows[idx][0] - case["org"], out.rows[idx + 1][0] - case["org"]
            got = out.image[lo:hi]
            if got != want:
                return viol("{!r} beside {!r}, label at ${:04X}: emitted {} expected {}".format(
                    text, second if idx == 2 else first, case["org"], got.hex(), want.hex()), fid="C05:PAIR:bytes", labels=labels)
    if out.image[-1:] != b"\x12" or len(out.image) != out.rows[4][0] - case["org"] + 1:
        return viol("image of {} bytes does not end at the listed address of the last statement".format(len(out.image)),
                    fid="C05:PAIR:layout", labels=labels)
    return ok(labels=labels, nontrivial=True)


def searches(tier):
    q = tier == "quick"
    return [("lists", _list_case, 12000 if q else 500000), ("fcc", _fcc_case, 8000 if q else 500000),
            ("rmb", _rmb_case, 800 if q else 20000), ("nobyte", _nobyte_case, 100 if q else 1000)]


LABEL_ADDR = [ORG, ORG + 1, None]   # L0 before (at ORG), L1 before (ORG+1), L2 = sentinel ZZN (after)


def build(case):
    """-> (lines, expected bytes or None when the directive must be rejected, index of the directive row)"""
    d = case["dir"]
    pre, post = [], []
    expected = b""
    must_reject = False
    label = ""
    if d in ("FCB", "FDB"):
        width = 1 if d == "FCB" else 2
        lo, hi = (-128, 255) if width == 1 else (-32768, 65535)
        parts = []
        n_equ = 0
        out = bytearray()
        for e in case["elems"]:
            if e["kind"] == "label":
                name = ["ZZA", "ZZB", "ZZN"][e["idx"]]
                parts.append(name)
                v = None
                out += b"\x00" * width           # patched below once the size is known
                continue
            if e["kind"] == "lablab":       # two labels in one element: ZZB-ZZA = 1, ZZA+ZZB = 2*ORG+1
                parts.append({"-": "ZZB-ZZA", "+": "ZZA+ZZB", "r": "ZZA-ZZB"}[e["op"]])
                v = {"-": 1, "+": 2 * ORG + 1, "r": -1}[e["op"]]
                if not lo <= v <= hi:
                    must_reject = True
                out += (v % (1 << (8 * width))).to_bytes(width, "big")
                continue
            if e["kind"] == "labelsym":
                name = "ZQ%d" % n_equ
                n_equ += 1
                (post if e["after"] else pre).append(A.line(name, "EQU", str(e["c"])))
                parts.append(["ZZA", "ZZB"][e["idx"]] + e["op"] + name)
                v = [ORG, ORG + 1][e["idx"]] + (e["c"] if e["op"] == "+" else -e["c"])
                if not lo <= v <= hi:
                    must_reject = True
                out += (v % (1 << (8 * width))).to_bytes(width, "big")
                continue
            v = e["v"]
            if e["kind"] == "expr":
                parts.append(e["text"])
            elif e["kind"] == "lit":
                parts.append(_spell(v, e["sp"]))
            else:
                name = "ZQ%d" % n_equ
                n_equ += 1
                (pre if e["kind"] == "equ_before" else post).append(A.line(name, "EQU", _spell(v, e["sp"])))
                parts.append(name)
            if not lo <= v <= hi:
                must_reject = True
            out += (v % (1 << (8 * width))).to_bytes(width, "big")
        # labels: ZZA at ORG, ZZB at ORG+1, directive at ORG+2, ZZN right after it
        size = len(out)
        pos = 0
        for e in case["elems"]:
            if e["kind"] == "label":
                addr = [ORG, ORG + 1, ORG + 2 + size][e["idx"]]
                if width == 1:
                    must_reject = True           # a $10xx address never fits a byte
                else:
                    out[pos:pos + 2] = addr.to_bytes(2, "big")
            pos += width
        expected = bytes(out)
        operand = ",".join(parts)
    elif d == "FCC":
        operand = case["delim"] + case["text"] + case["delim"]
        expected = case["text"].encode("latin-1")
    elif d == "RMB":
        operand = _spell(case["n"], case["sp"])
        expected = bytes(case["n"])
    else:
        operand = case["operand"]
        label = case.get("label", "")
    comment = case.get("comment")
    if d == "FCC" and comment is not None:
        text = "{:<8} FCC {} ; {}\n".format("", operand, comment)
    else:
        text = A.line(label, d, operand, comment)
    if d == "RMB" and len(expected) > 0xE000:   # keep the program below $FFFF: origin 0, no helper statements in front
        return [A.line("", "ORG", "$0000"), A.line("ZZB", "RMB", "0"), text, A.line("ZZN", "NOP")], expected, 2
    lines = pre + [A.line("", "ORG", "$%04X" % ORG), A.line("ZZA", "NOP"), A.line("ZZB", "NOP"), text, A.line("ZZN", "NOP")] + post
    return lines, (None if must_reject else expected), len(pre) + 3


def render(case):
    if case["dir"] == "PAIR":
        return case
    lines, expected, _ = build(case)
    show = dict(case)
    if "elems" in show and len(show["elems"]) > 8:
        show["elems"] = show["elems"][:8] + ["... {} more".format(len(case["elems"]) - 8)]
    return dict(case=show, source=[l.rstrip("\n")[:100] for l in lines][:12],
                expected=None if expected is None else expected[:24].hex())


def execute(case):
    d = case["dir"]
    if d == "PAIR":
        return execute_pair(case)
    lines, expected, row = build(case)
    labels = ["dir:" + d] + (["lower_case_hex"] if case.get("lower_hex") else [])
    nontrivial = bool(case.get("lower_hex"))
    if d in ("FCB", "FDB"):
        kinds = set(e["kind"] for e in case["elems"])
        if kinds - {"lit"}:
            labels.append("has_symbol")
        nontrivial = len(case["elems"]) >= 2 or bool(kinds - {"lit"}) or any(e.get("v", 0) < 0 for e in case["elems"])
    elif d == "FCC":
        t = case["text"]
        nontrivial = len(t) >= 11 or any(not c.isalnum() for c in t)
        if "  " in t:
            labels.append("space_run")
        if ";" in t:
            labels.append("semicolon")
    elif d == "RMB":
        nontrivial = case["n"] >= 256
    else:
        nontrivial = True
    with driver.TempDir() as tmp:
        cwd = None
        if d == "INCLUDE":
            open(tmp + "/empty.asm", "w").close()
            cwd = tmp
        out = driver.assemble(lines, timeout=60, cwd=cwd)
    if out.kind in ("CRASH", "HANG"):
        return skip("crash/hang: judged by C13 ({} {})".format(out.exc, out.frame), labels=labels)
    fid = "C05:{}:".format(d)
    src = lines[row].rstrip("\n")[:120]
    if expected is None:
        labels.append("must_reject")
        if out.kind == "DIAG":
            return ok(labels=labels, nontrivial=True)
        return viol("{!r}: a value does not fit the directive's width but the statement was accepted".format(src),
                    fid=fid + "accepted-out-of-range", labels=labels)
    if out.kind == "DIAG":
        return viol("{!r} rejected: {}".format(src, out.message), fid=fid + "rejected", labels=labels)
    lead = 0 if (d == "RMB" and len(expected) > 0xE000) else 2
    want = b"\x12" * lead + expected + b"\x12"
    if out.image != want:
        got = out.image[lead:-1] if len(out.image) >= 3 else out.image
        return viol("{!r}: emitted {} bytes {}..., expected {} bytes {}...".format(
            src, len(got), got[:20].hex(), len(expected), expected[:20].hex()), fid=fid + "bytes", labels=labels)
    syms = dict(out.symbols)
    reserved = syms.get("ZZN", -1) - (syms.get("ZZB", -1) + (1 if lead else 0))
    if reserved != len(expected):
        return viol("{!r}: {} bytes emitted but {} reserved (next label at ${:04X})".format(
            src, len(expected), reserved, syms.get("ZZN", -1)), fid=fid + "reserved", labels=labels)
    if out.rows[row + 0][0] is None:
        return viol("listing row unreadable", fid=fid + "listing", labels=labels)
    return ok(labels=labels, nontrivial=nontrivial)
