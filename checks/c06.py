"""C06 - cassette images round-trip every file exactly; any well-formed tape lists as the files it contains."""
import random

from hypothesis import strategies as st

from vlib import casref, filegen
from vlib.harness import ok, viol

PID = "C06"
RULE = ("Two Hypothesis searches. roundtrip: lists of 0-6 files (names 0-12 printable non-space ASCII in both cases, "
        "types 0-3, data types 00/FF, any 16-bit addresses, data lengths from the 255-multiple grid / uniform 0-4096 "
        "/ up to 65535, content with block markers 55 3C 00/01/FF) are written with CassetteFile.add_files, the "
        "bytes re-opened with CassetteFile(buffer=...).list_files() and compared field by field with the input; the "
        "writing object itself is then rebuilt file by file and listed after every addition (and twice at the end), "
        "each listing compared with the files added so far, the final image with the add_files image; finally the same "
        "file objects are written to a second tape with the first of them twice. "
        "foreign: the same file lists are written by an independent variant writer (leader lengths 1-400, zero gaps "
        "0-300, gap-flagged files with leaders between data blocks, data blocks of arbitrary sizes 1-255, trailing "
        "leader) and listed by the tool. Enumerated: single file of every length 0..1100 (quick) / 0..4000 "
        "(thorough) in both modes. Non-trivial = >= 2 files, or a length within 1 of a multiple of 255, or a payload "
        "containing the bytes 55 3C; distinct by the hash of the case.")
ASSUMPTIONS = [
    "vlib/casref.py (independent tape grammar and variant writer) is the trusted reference",
    "names compare case-insensitively, space padded / truncated to 8 characters, as the property states",
]
HEALTH = {"multi_file": 0.12, "len_edge": 0.08, "has_553c": 0.02, "foreign": 0.12}
EXHAUSTIVE = {"quick": ["single file of every data length 0..1100, tool-written and independently written"],
              "thorough": ["single file of every data length 0..4000, tool-written and independently written"]}

FID_EMPTY = "F-C06-empty-file-ends-listing"

_layout = st.fixed_dictionaries(dict(
    gap1=st.sampled_from([0, 0, 1, 128, 300]), lead1=st.one_of(st.sampled_from([1, 2, 128]), st.integers(1, 400)),
    gap2=st.sampled_from([0, 0, 1, 128, 300]), lead2=st.one_of(st.sampled_from([1, 2, 128]), st.integers(1, 400)),
    gapflag=st.sampled_from([0, 0, 0xFF]), bgap=st.sampled_from([0, 1, 64]), blead=st.integers(1, 200),
    cmode=st.sampled_from(["full", "full", "fixed", "rand"]), csize=st.integers(1, 255), ck=st.integers(0, 2 ** 31)))

# the main searches draw no zero-length file (known finding F-C06-empty-file-ends-listing would absorb them);
# zero-length files get a small search of their own so the finding's exact shape stays under watch
def _mk(min_len):
    files = st.lists(filegen.cas_file(min_len=min_len), min_size=0, max_size=6)
    roundtrip = st.fixed_dictionaries(dict(mode=st.just("roundtrip"), files=files))
    foreign = st.fixed_dictionaries(dict(
        mode=st.just("foreign"),
        files=st.lists(st.tuples(filegen.cas_file(big_weight=0, min_len=min_len), _layout).map(
            lambda t: dict(t[0], layout=t[1])), min_size=0, max_size=5),
        trailing=st.sampled_from([0, 0, 1, 128])))
    return roundtrip, foreign


_roundtrip, _foreign = _mk(1)
_roundtrip0, _foreign0 = _mk(0)

_DEFAULT_LAYOUT = dict(gap1=0, lead1=1, gap2=0, lead2=1, gapflag=0, bgap=0, blead=1, cmode="fixed", csize=100, ck=0)


def enumerated(tier, seed):
    top = 1100 if tier == "quick" else 4000
    for n in range(top + 1):
        f = dict(name="N%d" % n, ftype=n % 4, dtype=0xFF if n % 3 == 0 else 0, load=(n * 31) & 0xFFFF,
                 exec=(n * 17) & 0xFFFF, data=dict(n=n, k=n, mode=(n + 1) % 4, head="", tail=""))
        yield dict(mode="roundtrip", files=[f])
        lay = dict(_DEFAULT_LAYOUT, csize=1 + (n * 7) % 255, lead1=1 + n % 5, cmode=("fixed", "rand", "full")[n % 3], ck=n)
        yield dict(mode="foreign", files=[dict(f, layout=lay)], trailing=n % 2)


def searches(tier):
    n = 2500 if tier == "quick" else 100000
    return [("roundtrip", _roundtrip, n), ("foreign", _foreign, n),
            ("roundtrip_with_empty_files", _roundtrip0, n // 10), ("foreign_with_empty_files", _foreign0, n // 10)]


def render(case):
    out = dict(case)
    out["files"] = [filegen.short_file(f) for f in case["files"]]
    return out


def chunks_for(layout, n):
    if n == 0:
        return []
    if layout["cmode"] == "full":
        size = 255
    elif layout["cmode"] == "fixed":
        size = layout["csize"]
    else:
        rnd = random.Random(layout["ck"])
        out = []
        left = n
        while left:
            c = min(left, rnd.randint(1, 255))
            out.append(c)
            left -= c
        return out
    out = [size] * (n // size)
    if n % size:
        out.append(n % size)
    return out


def listing_mismatch(listed, files, datas):
    """None when the tool's listing equals the expected files; else (index, text)"""
    for idx, (f, d) in enumerate(zip(files, datas)):
        if idx >= len(listed):
            return idx, "listing has {} files, expected {}".format(len(listed), len(files))
        g = listed[idx]
        if filegen.norm_name(g.name) != filegen.norm_name(f["name"]):
            return idx, "file {}: name {!r}, expected {!r}".format(idx, g.name, f["name"])
        for key, got, want in (("type", g.type, f["ftype"]), ("data type", g.data_type, f["dtype"]),
                               ("load address", g.load_addr, f["load"]), ("entry address", g.exec_addr, f["exec"])):
            if filegen.value_int(got) != want or getattr(got, "negative", False):
                return idx, "file {}: {} {}, expected {}".format(idx, key, filegen.value_int(got), want)
        if bytes(bytearray(g.data)) != d:
            return idx, "file {}: {} data bytes differ from the {} written".format(idx, len(g.data), len(d))
    if len(listed) > len(files):
        return len(files), "listing has {} files, expected {}".format(len(listed), len(files))
    return None


def execute(case):
    from cocoasm.virtualfiles.cassette import CassetteFile
    files = case["files"]
    datas = [filegen.expand(f["data"]) for f in files]
    labels = [case["mode"]]
    nontrivial = len(files) >= 2
    if len(files) >= 2:
        labels.append("multi_file")
    if any(len(d) % 255 in (0, 1, 254) for d in datas):
        labels.append("len_edge")
        nontrivial = True
    if any(b"\x55\x3c" in d for d in datas):
        labels.append("has_553c")
        nontrivial = True
    try:
        if case["mode"] == "roundtrip":
            tape = CassetteFile()
            cocos = [filegen.to_coco(f, d) for f, d in zip(files, datas)]
            tape.add_files(cocos)
            image = list(tape.get_buffer())
        else:
            spec = []
            for f, d in zip(files, datas):
                lay = f["layout"]
                spec.append(dict(name=f["name"][:8].ljust(8).encode("latin-1"), ftype=f["ftype"], dtype=f["dtype"],
                                 load=f["load"], exec=f["exec"], data=d, gap1=lay["gap1"], lead1=lay["lead1"],
                                 gap2=lay["gap2"], lead2=lay["lead2"], gapflag=lay["gapflag"], bgap=lay["bgap"],
                                 blead=lay["blead"], chunks=chunks_for(lay, len(d))))
                if lay["gapflag"]:
                    labels.append("gap_flagged")
            image = list(casref.write(spec, trailing=case.get("trailing", 0)))
            casref.parse(image)  # the independently written tape is well-formed by the reference grammar
        listed = CassetteFile(buffer=list(image)).list_files()
    except casref.TapeError as err:
        return viol("tape is not well-formed: {}".format(err), fid="C06:malformed", labels=labels)
    except Exception as err:  # the container API promises a listing for every tape it wrote / every well-formed tape
        return viol("{} raised {}: {}".format(case["mode"], type(err).__name__, err),
                    fid="C06:raise:" + type(err).__name__, labels=labels)
    bad = listing_mismatch(listed, files, datas)
    if bad is None and case["mode"] == "roundtrip" and all(len(d) for d in datas):
        # "listing that image": the object that was written must list the same files as a fresh object over its
        # bytes - after every single addition, and when listed twice
        try:
            tape = CassetteFile()
            for n, (f, d) in enumerate(zip(files, datas)):
                tape.add_file(filegen.to_coco(f, d))
                for again in (0, 1) if n == len(files) - 1 else (0,):
                    bad = listing_mismatch(tape.list_files(), files[:n + 1], datas[:n + 1])
                    if bad is not None:
                        return viol("the written object, listed after addition {}{}: {}".format(
                            n + 1, " (second listing)" if again else "", bad[1]), fid="C06:same-object", labels=sorted(set(labels)))
            if list(tape.get_buffer()) != image:
                return viol("adding the files one by one gives a different image than adding the list",
                            fid="C06:incremental-image", labels=sorted(set(labels)))
            # a list may hold the same file twice, and the same file objects may be written to a second tape
            again = CassetteFile()
            again.add_files(cocos + cocos[:1])
            bad = listing_mismatch(CassetteFile(buffer=list(again.get_buffer())).list_files(), files + files[:1], datas + datas[:1])
            if bad is not None:
                return viol("the same file objects written to a second tape, the first of them twice: {}".format(bad[1]),
                            fid="C06:reused-objects", labels=sorted(set(labels)))
        except Exception as err:
            return viol("listing the written object raised {}: {}".format(type(err).__name__, err),
                        fid="C06:raise-same-object:" + type(err).__name__, labels=sorted(set(labels)))
        labels.append("same_object")
    if bad is None:
        return ok(labels=sorted(set(labels)), nontrivial=nontrivial)
    idx, text = bad
    # known finding: an empty file is not listed and ends the listing (everything before it is listed correctly)
    fid = "C06:" + case["mode"] + ":mismatch"
    if idx < len(files) and len(datas[idx]) == 0 and len(listed) == idx:
        fid = FID_EMPTY
    return viol("{}: {}".format(case["mode"], text), fid=fid, labels=sorted(set(labels + ["empty_file"])))
