"""C07 - disk images round-trip every file exactly, wherever its granules lie."""
import random

from hypothesis import strategies as st

from vlib import dskref, filegen
from vlib.harness import ok, skip, viol

PID = "C07"
RULE = ("roundtrip: lists of 1-8 files (machine-language, BASIC, ASCII type 0/1; names 1-12 alphanumerics either case, "
        "extensions 0-3; data lengths from the sector/granule grid {0,1,2,5,10, 256k+-11, 2304k-16..+11}, uniform 0-6000 "
        "or up to 40000; arbitrary content) written with DiskFile.add_files under the default or a permuted "
        "granule_fill_order, re-opened with DiskFile(buffer=...).list_files() and compared field by field; the tool's "
        "listing is also compared with the independent reader. foreign (each such image is then extended by two files through the tool: every file already there and each new one lists, the image stays valid): the same file lists written by the independent "
        "writer on arbitrary chains (shuffled, non-adjacent, crossing track 17, both sector-edge conventions, "
        "arbitrary directory slots) and listed by the tool. Enumerated: single file of every length 2280..2320 and "
        "4590..4620 x 3 kinds x {tool default, tool reversed order, foreign scattered chain}. Non-trivial = a file of "
        ">= 2 granules, or a stream length within 10 of a multiple of 256/2304, or a non-default fill order, or a chain "
        "whose consecutive granules are not adjacent; distinct by case hash.")
ASSUMPTIONS = [
    "vlib/dskref.py (independent Disk BASIC reader and writer) is the trusted reference",
    "names compare case-insensitively, at most 8 characters; extensions case-insensitively, at most 3",
    "load / entry addresses are compared for machine-language files only (other kinds do not store them)",
]
HEALTH = {"multi_granule": 0.08, "edge_length": 0.08, "foreign": 0.12, "non_adjacent": 0.08, "foreign_extended": 0.1}
EXHAUSTIVE = {"quick": ["single file of every data length 2280..2320 and 4590..4620 x 3 kinds x 3 placements"],
              "thorough": ["single file of every data length 2280..2320 and 4590..4620 x 3 kinds x 3 placements"]}

_files = st.lists(filegen.dsk_file(), min_size=1, max_size=8)
_roundtrip = st.fixed_dictionaries(dict(mode=st.just("roundtrip"), files=_files, order=filegen.fill_order))
_foreign = st.fixed_dictionaries(dict(mode=st.just("foreign"), files=st.lists(filegen.dsk_file(big=20000), min_size=1, max_size=6),
                                      perm=st.integers(0, 2 ** 31), full_last=st.booleans(), scatter_slots=st.booleans()))


def enumerated(tier, seed):
    for n in list(range(2280, 2321)) + list(range(4590, 4621)):
        for kind, ftype, dtype in (("ml", 2, 0), ("basic", 0, 0), ("ascii", 0, 0xFF)):
            f = dict(name="F%d" % n, ext="BIN", kind=kind, ftype=ftype, dtype=dtype, load=0x0E00, exec=0x0E10,
                     data=dict(n=n, k=n, mode=0, head="", tail=""))
            yield dict(mode="roundtrip", files=[f], order=None)
            yield dict(mode="roundtrip", files=[f], order=list(range(67, -1, -1)))
            yield dict(mode="foreign", files=[f], perm=n, full_last=bool(n % 2), scatter_slots=bool(n % 3))


    # file lists whose total is exactly the disk's 68 granules, and disks with more than 64 files
    def f(name, kind, n, k):
        ftype, dtype = {"ml": (2, 0), "basic": (0, 0), "ascii": (0, 0xFF)}[kind]
        return dict(name=name, ext="BIN", kind=kind, ftype=ftype, dtype=dtype, load=0x1000, exec=0x1001, data=dict(n=n, k=k, mode=0, head="", tail=""))
    full = [f("ML29", "ml", 65535, 1), f("BAS29", "basic", 65535, 2), f("ASC10", "ascii", 20836, 3)]
    many = [f("S%d" % i, ("ml", "basic", "ascii")[i % 3], 10 + i, i) for i in range(68)]
    for order in (None, list(range(67, -1, -1))):
        yield dict(mode="roundtrip", files=full, order=order)
        yield dict(mode="roundtrip", files=many, order=order)
        yield dict(mode="roundtrip", files=many[:65], order=order)
    yield dict(mode="foreign", files=many, perm=5, full_last=False, scatter_slots=False)
    yield dict(mode="foreign", files=many[:40], perm=6, full_last=True, scatter_slots=True)


def searches(tier):
    n = 1200 if tier == "quick" else 60000
    return [("roundtrip", _roundtrip, n), ("foreign", _foreign, n)]


def render(case):
    out = dict(case)
    out["files"] = [filegen.short_file(f) for f in case["files"]]
    if out.get("order"):
        out["order"] = out["order"][:12] + ["..."]
    return out


def execute(case):
    from cocoasm.virtualfiles.disk import DiskFile
    files = list(case["files"])
    labels = [case["mode"]]
    # keep what fits on the disk (capacity is C15's subject)
    used = 0
    kept = []
    for f in files:
        need = filegen.stream_len(f) // 2304 + 1
        if used + need <= 68:
            kept.append(f)
            used += need
    files = kept
    if not files:
        return skip("nothing fits", labels=labels)
    datas = [filegen.expand(f["data"]) for f in files]
    for f in files:
        n = filegen.stream_len(f)
        if n >= 2304:
            labels.append("multi_granule")
        if min(n % 256, 256 - n % 256) <= 10 or min(n % 2304, 2304 - n % 2304) <= 10:
            labels.append("edge_length")
    try:
        if case["mode"] == "roundtrip":
            if case["order"]:
                labels.append("permuted")
            disk = DiskFile(granule_fill_order=list(case["order"]) if case["order"] else None)
            cocos = [filegen.to_coco(f, d) for f, d in zip(files, datas)]
            disk.add_files(cocos)
            image = list(disk.get_buffer())
        else:
            rnd = random.Random(case["perm"])
            free = list(range(68))
            rnd.shuffle(free)
            chains = []
            for f in files:
                need = filegen.stream_len(f) // 2304 + 1
                chains.append(free[:need])
                free = free[need:]
            slots = None
            if case["scatter_slots"]:
                slots = sorted(rnd.sample(range(72), len(files)))
            spec = [dict(name=f["name"][:8].upper().encode(), ext=f["ext"][:3].upper().encode(), ftype=f["ftype"],
                         dtype=f["dtype"], load=f["load"], exec=f["exec"], data=d, full_last=case["full_last"])
                    for f, d in zip(files, datas)]
            image = list(dskref.write(spec, chains, slots=slots))
            problems = dskref.fsck(image)
            if problems:
                return viol("independent writer produced an invalid image: {}".format(problems[0]), fid="C07:harness", labels=labels)
        ents = dskref.entries(bytes(bytearray(image)))
        if any(abs(a - b) != 1 or (a < 34) != (b < 34) for e in ents for a, b in zip(e.chain, e.chain[1:])):
            labels.append("non_adjacent")
        listed = DiskFile(buffer=list(image)).list_files()
    except dskref.DiskError as err:
        return viol("{}: image not readable by the independent reader: {}".format(case["mode"], err), fid="C07:fsck", labels=labels)
    except Exception as err:
        return viol("{} raised {}: {}".format(case["mode"], type(err).__name__, err),
                    fid="C07:{}:raise:{}:{}".format(case["mode"], type(err).__name__, str(err)[:24]), labels=sorted(set(labels)))
    labels = sorted(set(labels))
    bad = filegen.disk_listing_mismatch(listed, files, datas)
    if bad:
        return viol("{}: {}".format(case["mode"], bad), fid="C07:{}:mismatch".format(case["mode"]), labels=labels)
    # differential: the independent reader must see the same files on the tool's own image
    if case["mode"] == "roundtrip":
        try:
            ref = dskref.read(image)
        except dskref.DiskError as err:
            return viol("the tool lists its own image but the independent reader cannot: {}".format(err),
                        fid="C07:differential", labels=labels)
        for idx, (r, f, d) in enumerate(zip(ref, files, datas)):
            if bytes(r["data"]) != d or (f["ftype"] == 2 and (r["load"], r["exec"]) != (f["load"], f["exec"])):
                return viol("independent reader disagrees on file {}".format(idx), fid="C07:differential", labels=labels)
        # a list may hold the same file twice, and the same file objects may go onto a second disk: written again
        # (the first of them twice when there is room), they must list as before
        twice = used + filegen.stream_len(files[0]) // 2304 + 1 <= 68
        try:
            again = DiskFile(granule_fill_order=list(case["order"]) if case["order"] else None)
            again.add_files(cocos + (cocos[:1] if twice else []))
            bad = filegen.disk_listing_mismatch(DiskFile(buffer=list(again.get_buffer())).list_files(),
                                                files + (files[:1] if twice else []), datas + (datas[:1] if twice else []))
        except Exception as err:
            bad = "raised {}: {}".format(type(err).__name__, err)
        if bad:
            return viol("the same file objects written to a second disk{}: {}".format(", the first of them twice" if twice else "", bad),
                        fid="C07:reused-objects", labels=labels)
    if case["mode"] == "foreign" and used + 3 <= 68 and len(files) <= 60:
        # two more files are written into the foreign image (scattered chains, killed directory entries in front of live
        # ones): every file already there still lists, each new one lists once, and the image stays a valid filesystem
        taken = set(f["name"][:8].upper() for f in files)
        names = [n for n in ("ZZNEW1", "ZZNEW2", "QQNEW1", "QQNEW2") if n not in taken][:2]
        new = [dict(name=names[0], ext="BIN", kind="ml", ftype=2, dtype=0, load=0x3000, exec=0x3002, data=dict(n=300, k=7, mode=0, head="", tail="")),
               dict(name=names[1], ext="TXT", kind="ascii", ftype=1, dtype=0xFF, load=0, exec=0, data=dict(n=2400, k=8, mode=1, head="", tail=""))]
        ndatas = [filegen.expand(f["data"]) for f in new]
        try:
            ext = DiskFile(buffer=list(image))
            ext.add_files([filegen.to_coco(f, d) for f, d in zip(new, ndatas)])
            image2 = list(ext.get_buffer())
            problems = dskref.fsck(image2)
            listed2 = DiskFile(buffer=list(image2)).list_files()
        except Exception as err:
            return viol("foreign image extended by two files: raised {}: {}".format(type(err).__name__, err), fid="C07:extend:raise", labels=labels)
        if problems:
            return viol("foreign image extended by two files: {}".format(problems[0]), fid="C07:extend:fsck", labels=labels)
        pool = list(listed2)
        for f, d in list(zip(files, datas)) + list(zip(new, ndatas)):
            hit = next((g for g in pool if filegen.disk_listing_mismatch([g], [f], [d]) is None), None)
            if hit is None:
                return viol("foreign image extended by two files: {!r} no longer lists as stored ({} files listed, {} expected)".format(
                    f["name"], len(listed2), len(files) + 2), fid="C07:extend:lost", labels=labels)
            pool.remove(hit)
        if pool:
            return viol("foreign image extended by two files: {} unexpected files listed".format(len(pool)), fid="C07:extend:extra", labels=labels)
        labels = labels + ["foreign_extended"]
    return ok(labels=labels, nontrivial=bool(set(labels) & {"multi_granule", "edge_length", "permuted", "non_adjacent"}))
