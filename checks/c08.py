"""C08 - every disk image written is a structurally valid Disk BASIC filesystem."""
from hypothesis import strategies as st

from vlib import dskref, filegen
from vlib.harness import ok, skip, viol

PID = "C08"
RULE = ("Histories of 1-8 add_file calls on an initially blank DiskFile (default fill order or a Hypothesis permutation of "
        "0..67 passed as granule_fill_order); files are machine-language / BASIC / ASCII with names 1-12 alphanumerics (a few enumerated names carry letters of the 8-bit character set), "
        "extensions 0-3, data lengths from the grid {0,1,2,5,10, 256k+-11, 2304k-16..+11} or uniform 0-6000 or up to "
        "40000, arbitrary content. After every add_file the independent fsck runs: size 161,280; chains within 0-67, no "
        "revisit, last-granule marker C0-C9; chains disjoint; every non-free FAT entry in exactly one chain; implied "
        "length = stream length (ML / BASIC headers); ML stream = 00 len load data FF 00 00 exec in chain order; every "
        "byte outside allocated granules, the FAT sector and the directory sectors equals both the fresh image of the "
        "same tree and $FF. Enumerated: single ML / BASIC / ASCII file of every length 2280..2320 and 4590..4620, on the "
        "default order and on two permuted orders whose second granule is not physically adjacent; lists that overflow "
        "the disk. Every list is also handed to add_files as a whole: if that returns normally, what it leaves must "
        "pass the same fsck. Non-trivial = a "
        "file of >= 2 granules, or a stream length within 10 of a multiple of 256 / 2304, or a non-default fill order, "
        "or a stream length congruent 2300..2303 mod 2304; distinct by case hash.")
ASSUMPTIONS = [
    "vlib/dskref.py (fsck written from the Disk BASIC format description) is the trusted reference",
    "a history that exceeds the capacity of the disk ends there (C15 owns the accounting)",
]
HEALTH = {"multi_granule": 0.08, "edge_length": 0.08, "permuted": 0.08}
EXHAUSTIVE = {"quick": ["single file of every data length 2280..2320 and 4590..4620 x 3 kinds x 3 fill orders"],
              "thorough": ["single file of every data length 2280..2320 and 4590..4620 x 3 kinds x 3 fill orders"]}

_case = st.fixed_dictionaries(dict(files=st.lists(filegen.dsk_file(), min_size=1, max_size=8), order=filegen.fill_order))
_ORDERS = [None, list(range(67, -1, -1)), [33, 40, 2, 66, 34, 0, 67, 1] + [g for g in range(68) if g not in (33, 40, 2, 66, 34, 0, 67, 1)]]


def enumerated(tier, seed):
    for n in list(range(2280, 2321)) + list(range(4590, 4621)):
        for kind, ftype, dtype in (("ml", 2, 0), ("basic", 0, 0), ("ascii", 0, 0xFF)):
            for order in _ORDERS:
                yield dict(order=order, files=[dict(name="F%d" % n, ext="BIN", kind=kind, ftype=ftype, dtype=dtype,
                                                    load=0x0E00, exec=0x0E10, data=dict(n=n, k=n, mode=0, head="", tail=""))])


    # lists that overflow the disk while some granules are still free (through add_files, see execute)
    def f(name, kind, n, k):
        ftype, dtype = {"ml": (2, 0), "basic": (0, 0), "ascii": (0, 0xFF)}[kind]
        return dict(name=name, ext="BIN", kind=kind, ftype=ftype, dtype=dtype, load=0x1000, exec=0x1000, data=dict(n=n, k=k, mode=0, head="", tail=""))
    # names as they come off a tape whose name field is NUL padded, and a disk filled with 68 one-granule files
    yield dict(order=None, files=[f("AB\0\0\0\0\0\0", "ml", 300, 1), f("\0" * 8, "basic", 2400, 2), f("\0X", "ascii", 100, 3), f("LAST", "ml", 10, 4)])
    yield dict(order=None, files=[f("T%d" % i, ("ml", "basic", "ascii")[i % 3], 20 + i, i) for i in range(68)])
    # machine-language files whose entry or load address is $0000 (and the other one is not)
    yield dict(order=None, files=[dict(f("ZEROEX", "ml", 300, 1), load=0x7000, exec=0), dict(f("ZEROLD", "ml", 2400, 2), load=0, exec=0x1234),
                                  dict(f("BOTH0", "ml", 10, 3), load=0, exec=0), dict(f("TOP", "ml", 10, 4), load=0xFFFF, exec=0xFFFF)])
    # names with letters of the 8-bit character set (one byte each in the directory field), in granules before and after
    for order in _ORDERS[:2]:
        yield dict(order=order, files=[f("FIRST", "ml", 5000, 1), f("CAF\u00c9", "ml", 300, 2), f("\u00d1A\u00fc", "basic", 2400, 3), f("LAST", "ascii", 100, 4)])
        yield dict(order=order, files=[dict(f("NAME", "ml", 300, 2), ext="B\u00c9"), f("LAST", "ascii", 100, 4)])
    for order in _ORDERS[:2]:
        yield dict(order=order, files=[f("BIG1", "ml", 60000, 1), f("BIG2", "ml", 60000, 2), f("BIG3", "ml", 60000, 3), f("SML1", "basic", 100, 4), f("SML2", "ascii", 3000, 5)])
        yield dict(order=order, files=[f("A", "ascii", 65000, 1), f("B", "basic", 64000, 2), f("C", "ml", 30000, 3), f("D", "ml", 5000, 4)])
        yield dict(order=order, files=[f("X%d" % i, "ml", 20000, i) for i in range(8)])


def searches(tier):
    return [("histories", _case, 1500 if tier == "quick" else 100000)]


def render(case):
    return dict(order="default" if not case["order"] else case["order"][:12] + ["..."],
                files=[filegen.short_file(f) for f in case["files"]])


def classify(files, order):
    labels = []
    if order:
        labels.append("permuted")
    for f in files:
        n = filegen.stream_len(f)
        if n >= 2304:
            labels.append("multi_granule")
        if min(n % 256, 256 - n % 256) <= 10 or min(n % 2304, 2304 - n % 2304) <= 10:
            labels.append("edge_length")
        if n % 2304 >= 2300:
            labels.append("trailer_spill_window")
    return sorted(set(labels))


def execute(case):
    from cocoasm.virtualfiles.disk import DiskFile
    from cocoasm.virtualfiles.virtual_file_exceptions import VirtualFileValidationError
    files = case["files"]
    labels = classify(files, case["order"])
    blank = bytes(bytearray(DiskFile().get_buffer()))
    if blank != b"\xff" * dskref.IMAGE_SIZE:
        return viol("a fresh image is not 161,280 bytes of $FF", fid="C08:blank", labels=labels)
    disk = DiskFile(granule_fill_order=list(case["order"]) if case["order"] else None)
    used = 0
    for idx, f in enumerate(files):
        need = filegen.stream_len(f) // 2304 + 1
        if used + need > 68:
            break
        data = filegen.expand(f["data"])
        try:
            disk.add_file(filegen.to_coco(f, data))
        except Exception as err:
            return viol("add_file #{} ({} bytes, {}) raised {}: {}".format(idx, len(data), f["kind"], type(err).__name__, err),
                        fid="C08:raise:" + type(err).__name__ + ":" + str(err)[:24], labels=labels)
        used += need
        image = disk.get_buffer()
        if any((not isinstance(b, int)) or not 0 <= b <= 255 for b in image):
            return viol("image holds a non-byte after add_file #{}".format(idx), fid="C08:not-bytes", labels=labels)
        problems = dskref.fsck(image, blank=blank)
        if problems:
            return viol("after add_file #{} ({} data bytes, {}): {}".format(idx, len(data), f["kind"], "; ".join(problems[:3])),
                        fid="C08:fsck:" + problems[0].split(":")[-1][:28], labels=labels)
        # the directory must hold exactly idx+1 live entries
        ents = dskref.entries(bytes(bytearray(image)))
        if len(ents) != idx + 1:
            return viol("after add_file #{}: {} live directory entries".format(idx, len(ents)), fid="C08:entries", labels=labels)
        e = ents[-1]
        want = len(dskref.stream_of(dict(f, data=data)))
        if e.length != want:
            return viol("after add_file #{}: directory/FAT imply {} bytes, the stored stream is {}".format(idx, e.length, want),
                        fid="C08:implied-length", labels=labels)
        if f["ftype"] == 2 and f["dtype"] == 0:
            # header and trailer of a machine-language stream carry this file's length, load and entry address
            r = dskref.read(bytes(bytearray(image)))[-1]
            if (r["load"], r["exec"]) != (f["load"], f["exec"]) or bytes(r["data"]) != data:
                return viol("after add_file #{}: stream header / trailer give load ${:04X} entry ${:04X} and {} data bytes, the file has "
                            "${:04X} / ${:04X} / {}".format(idx, r["load"], r["exec"], len(r["data"]), f["load"], f["exec"], len(data)),
                            fid="C08:stream-fields", labels=labels)
    # the whole list again through the container's add_files, including files that no longer fit: if the call returns
    # normally the image it leaves behind is an image the tool would write, and must be a valid filesystem
    if len(files) >= 2:
        disk2 = DiskFile(granule_fill_order=list(case["order"]) if case["order"] else None)
        datas = [filegen.expand(f["data"]) for f in files]
        try:
            disk2.add_files([filegen.to_coco(f, d) for f, d in zip(files, datas)])
            returned = True
        except Exception:
            returned = False        # whether it must refuse is C15's subject
        if returned:
            labels = labels + ["add_files_returned"]
            problems = dskref.fsck(disk2.get_buffer(), blank=blank)
            if problems:
                return viol("add_files of {} files returned normally and left: {}".format(len(files), "; ".join(problems[:3])),
                            fid="C08:add_files:" + problems[0].split(":")[-1][:28], labels=labels)
    return ok(labels=labels, nontrivial=bool(labels))
