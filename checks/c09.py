"""C09 - adding or appending a file never disturbs files already stored."""
import os

from hypothesis import strategies as st

from vlib import casref, driver, dskref, filegen
from vlib.harness import ok, skip, viol

PID = "C09"
RULE = ("Model-based histories on a host temp file of kind cassette or disk. Each step is one session as the CLIs run it: "
        "VirtualFile(path, kind).open_virtual_file(); add 1-3 files; save_virtual_file(append_mode=True). A second "
        "family appends at container level: CassetteFile/DiskFile(buffer=<bytes of the previous image>).add_file(...). "
        "Files use the boundary lengths of C06/C07 (cassette: 255-multiples; disk: sector/granule edges), all kinds, "
        "arbitrary content incl. block markers; a dedicated strategy builds cassette images >= 161,280 bytes out of "
        "files whose content is runs of $00/$FF (so that the bytes at the disk directory offset look like an empty "
        "directory). Model = list of files in insertion order. After every step: independent reader of the host bytes "
        "== model; the tool's typed re-open lists == model; an untyped re-open (as file_util.py does) recognises the "
        "kind that was written. Disk histories that end nearly full attempt an addition that cannot fit on the re-opened "
        "container and then list the stored files from that same object. Non-trivial = >= 2 sessions with an add in between, or a cassette >= 161,280 bytes; "
        "distinct by case hash.")
ASSUMPTIONS = [
    "vlib/casref.py and vlib/dskref.py are the trusted readers",
    "zero-length files are not put on cassettes here (known finding F-C06-empty-file-ends-listing belongs to C06)",
    "whether an addition that cannot fit is refused is C15's business; here only the files already stored are watched after it",
]
HEALTH = {"sessions>=2": 0.2, "kind:cas": 0.12, "kind:dsk": 0.12, "big_cassette": 4, "big_cassette_whole_sectors": 4, "refused_add": 8}
EXHAUSTIVE = {}

_cas_file = filegen.cas_file(min_len=1, big_weight=0)
_dsk_file = filegen.dsk_file(big_weight=0)
_cas_steps = st.lists(st.lists(_cas_file, min_size=1, max_size=3), min_size=1, max_size=5)
_dsk_steps = st.lists(st.lists(_dsk_file, min_size=1, max_size=3), min_size=1, max_size=5)
_level = st.sampled_from(["virtualfile", "virtualfile", "container"])
_cas = st.fixed_dictionaries(dict(kind=st.just("cas"), level=_level, steps=_cas_steps))
_dsk = st.fixed_dictionaries(dict(kind=st.just("dsk"), level=_level, steps=_dsk_steps, order=filegen.fill_order))


def _big_file(n, k, mode, name):
    return dict(name=name, ftype=2, dtype=0, load=0x1000, exec=0x1000, data=dict(n=n, k=k, mode=mode, head="", tail=""))


_big = st.builds(
    lambda n1, n2, n3, k, mode, extra: dict(kind="cas", level="virtualfile", steps=[
        [_big_file(n1, k, mode, "BIGA"), _big_file(n2, k + 1, mode, "BIGB")], [_big_file(n3, k + 2, mode, "BIGC")], [extra]]),
    st.integers(56000, 65535), st.integers(56000, 65535), st.integers(56000, 65535), st.integers(0, 255),
    st.sampled_from([2, 2, 3, 3, 0]), _cas_file)


def _near_full(a, b, leave, over, kinds, tail):
    """two large files, a third that leaves `leave` granules free, one that needs `over` more than are free (refused),
    then one that still fits"""
    from checks import c15
    mid = 68 - a - b - leave
    steps = [[dict(c15._sized(kinds[0], a, 0, 1), name="BIGA")], [dict(c15._sized(kinds[1], b, 0, 2), name="BIGB")],
             [dict(c15._sized(kinds[2], mid, -1, 3), name="MID")], [dict(c15._sized(kinds[0], leave + over, 0, 4), name="TOOBIG")]]
    if leave and tail:
        steps.append([dict(c15._sized(kinds[1], min(leave, tail), 3, 5), name="LAST")])
    return steps


_kinds3 = st.lists(st.sampled_from(["ml", "basic", "ascii"]), min_size=3, max_size=3)
_dsk_full = st.builds(lambda a, b, leave, over, kinds, tail, order: dict(kind="dsk", level="container", order=order,
                                                                         steps=_near_full(a, b, leave, over, kinds, tail)),
                      st.integers(20, 28), st.integers(20, 28), st.integers(0, 7), st.integers(1, 3), _kinds3, st.integers(0, 3),
                      filegen.fill_order)


def enumerated(tier, seed):
    for leave in (0, 1, 2, 5, 7):
        yield dict(kind="dsk", level="container", order=None, steps=_near_full(28, 28, leave, 1, ["ml", "basic", "ascii"], 1))
    # the smallest histories: one file, then one more, both kinds and levels
    for kind in ("cas", "dsk"):
        for level in ("virtualfile", "container"):
            f1 = dict(name="ONE", ext="BIN", kind="ml", ftype=2, dtype=0, load=0x0E00, exec=0x0E00, data=dict(n=300, k=1, mode=0, head="", tail=""))
            f2 = dict(name="two", ext="BAS", kind="basic", ftype=0, dtype=0, load=0, exec=0, data=dict(n=2300, k=2, mode=1, head="", tail=""))
            yield dict(kind=kind, level=level, steps=[[f1], [f2], [f1]])
    # a file with an empty name (C06 allows names of 0 characters; such a tape file reaches a disk through a conversion)
    # is a file like any other: later additions (same session, later session) leave it listed.  Names with blanks in
    # them are outside the quantified domain (the disk listing drops blanks) and are not generated.
    for kind in ("cas", "dsk"):
        for level in ("virtualfile", "container"):
            for nm in ("",):
                f1 = dict(name=nm, ext="BIN", kind="ml", ftype=2, dtype=0, load=0x0E00, exec=0x0E00, data=dict(n=300, k=1, mode=0, head="", tail=""))
                f2 = dict(name="two", ext="BAS", kind="basic", ftype=0, dtype=0, load=0, exec=0, data=dict(n=2300, k=2, mode=1, head="", tail=""))
                f3 = dict(name="THREE", ext="DAT", kind="ascii", ftype=1, dtype=0xFF, load=0, exec=0, data=dict(n=40, k=3, mode=0, head="", tail=""))
                yield dict(kind=kind, level=level, steps=[[f1], [f2], [f3]])
                yield dict(kind=kind, level=level, steps=[[f2, f1, f3], [dict(f2, name="FOUR")]])
    # disk re-opened and extended under allocation orders that visit granule 0 early (a FAT link of $00 is a link)
    big = dict(name="BIG", ext="BIN", kind="ml", ftype=2, dtype=0, load=1, exec=2, data=dict(n=7000, k=3, mode=0, head="", tail=""))
    small = dict(name="SML", ext="DAT", kind="ascii", ftype=1, dtype=0xFF, load=0, exec=0, data=dict(n=300, k=4, mode=0, head="", tail=""))
    for order in ([5, 6, 0, 1] + [g for g in range(68) if g not in (5, 6, 0, 1)], [67, 0, 66, 1] + list(range(2, 66)), list(range(68))):
        yield dict(kind="dsk", level="container", order=order, steps=[[big], [small], [dict(big, name="BIG2")], [dict(small, name="SML2")]])
    for mode, k in ((2, 0), (2, 0xFF), (3, 7)):
        yield dict(kind="cas", level="virtualfile", steps=[[_big_file(65535, k, mode, "A"), _big_file(65535, k, mode, "B")],
                                                         [_big_file(65535, k, mode, "C")], [_big_file(10, 1, 0, "D")]])
    # a disk filled one granule at a time to its 68 files (17 per session): every one of them must keep listing
    def tiny(i):
        kind = ("ml", "basic", "ascii")[i % 3]
        ftype, dtype = {"ml": (2, 0), "basic": (0, 0), "ascii": (0, 0xFF)}[kind]
        return dict(name="T%d" % i, ext="BIN", kind=kind, ftype=ftype, dtype=dtype, load=0x1000, exec=0x1000, data=dict(n=15 + i, k=i, mode=0, head="", tail=""))
    for level in ("virtualfile", "container"):
        yield dict(kind="dsk", level=level, order=None, steps=[[tiny(i) for i in range(j, j + 17)] for j in (0, 17, 34, 51)])
    # tapes of >= 161,280 bytes whose total length is a multiple of 256 (a whole number of disk sectors), zero filled:
    # the last file's length is chosen so that the image written by the independent writer has such a length
    from checks import c10
    for j in range(10):
        first = [dict(_big_file(65535 - 7 * j, 0, 2, "ZA"), ext="BIN"), dict(_big_file(65535 - 3 * j, 0, 2, "ZB"), ext="BIN"),
                 dict(_big_file(40000 + j, 0, 2, "ZC"), ext="BIN")]
        base = len(c10.make_cas([dict(f, data=b"") for f in first])) + sum(f["data"]["n"] + 6 * ((f["data"]["n"] + 254) // 255) for f in first)
        for n in range(1, 256):
            extra = len(c10.make_cas([dict(_big_file(n, 0, 2, "ZD"), ext="BIN", data=bytes(n))]))
            if (base + extra) % 256 == 0:
                yield dict(kind="cas", level="virtualfile", steps=[first[:2], [first[2]], [_big_file(n, 0, 2, "ZD")], [_big_file(5, 1, 0, "ZE")]])
                break
    # a disk history that starts from a freshly formatted image (a disk without files is still a disk)
    for level in ("virtualfile", "container"):
        f1 = dict(name="ONE", ext="BIN", kind="ml", ftype=2, dtype=0, load=0x0E00, exec=0x0E00, data=dict(n=300, k=1, mode=0, head="", tail=""))
        f2 = dict(name="two", ext="BAS", kind="basic", ftype=0, dtype=0, load=0, exec=0, data=dict(n=2300, k=2, mode=1, head="", tail=""))
        yield dict(kind="dsk", level=level, blank_start=True, steps=[[f1], [f2], [dict(f1, name="THREE")]])
    # a tape has no limit on the number of files: 1,100 small ones, then 30 more, then one more (through the host-file
    # route only: the container route lists after every single addition, which is quadratic here)
    def small(i):
        return dict(name="N%d" % i, ext="BIN", ftype=2, dtype=0, load=0x0E00 + i, exec=0x0E00, data=dict(n=1 + i % 3, k=i, mode=0, head="", tail=""))
    yield dict(kind="cas", level="virtualfile", steps=[[small(i) for i in range(1100)], [small(i) for i in range(1100, 1130)], [small(1130)]])
    # tapes that keep growing past 256 KiB and 512 KiB (any total size): every re-open must still see every file
    yield dict(kind="cas", level="virtualfile", steps=[[_big_file(65535, 1, 0, "A"), _big_file(65535, 2, 0, "B")], [_big_file(65000, 3, 0, "C")],
                                                     [_big_file(64000, 4, 0, "D"), _big_file(63000, 5, 0, "E")], [_big_file(10, 6, 0, "F")],
                                                     [_big_file(65535, 7, 0, "G"), _big_file(65535, 8, 0, "H"), _big_file(65535, 9, 0, "I")],
                                                     [_big_file(300, 10, 0, "J")]])


def searches(tier):
    q = tier == "quick"
    return [("cassette", _cas, 250 if q else 20000), ("disk", _dsk, 120 if q else 8000),
            ("disk_near_full", _dsk_full, 60 if q else 4000), ("big_cassette", _big, 16 if q else 300)]


def render(case):
    return dict(kind=case["kind"], level=case["level"], order="default" if not case.get("order") else case["order"][:10] + ["..."],
                steps=[[filegen.short_file(f) for f in s] for s in case["steps"]])


def _cmp_cas(parsed, model):
    if len(parsed) != len(model):
        return "independent reader finds {} files, model has {}".format(len(parsed), len(model))
    for i, (p, (f, d)) in enumerate(zip(parsed, model)):
        if filegen.norm_name(p.name) != filegen.norm_name(f["name"]) or p.ftype != f["ftype"] or p.dtype != f["dtype"] \
                or p.load != f["load"] or p.exec != f["exec"] or bytes(p.data) != d:
            return "file {} differs in the stored image".format(i)
    return None


def _cmp_dsk(refs, model):
    if len(refs) != len(model):
        return "independent reader finds {} files, model has {}".format(len(refs), len(model))
    for i, (r, (f, d)) in enumerate(zip(refs, model)):
        if filegen.norm_name(r["name"]) != filegen.norm_name(f["name"]) or r["ftype"] != f["ftype"] or r["dtype"] != f["dtype"] \
                or bytes(r["data"]) != d or (f["ftype"] == 2 and (r["load"], r["exec"]) != (f["load"], f["exec"])):
            return "file {} differs in the stored image".format(i)
    return None


def execute(case):
    from cocoasm.virtualfiles.cassette import CassetteFile
    from cocoasm.virtualfiles.disk import DiskFile
    from cocoasm.virtualfiles.virtual_file import VirtualFile, VirtualFileType
    from cocoasm.virtualfiles.source_file import SourceFile, SourceFileType
    from checks import c06
    kind, level = case["kind"], case["level"]
    vtype = VirtualFileType.CASSETTE if kind == "cas" else VirtualFileType.DISK
    labels = ["kind:" + kind, "level:" + level]
    if len(case["steps"]) >= 2:
        labels.append("sessions>=2")
    model = []
    free = 68
    with driver.TempDir() as tmp:
        path = os.path.join(tmp, "image." + kind)
        if case.get("blank_start") and kind == "dsk":
            # the history starts from an existing disk image that holds no file yet (freshly formatted)
            labels.append("starts_from_blank_image")
            with open(path, "wb") as fh:
                fh.write(b"\xff" * dskref.IMAGE_SIZE)
        for sidx, step in enumerate(case["steps"]):
            new = []
            toobig = []
            for f in step:
                if kind == "dsk":
                    need = filegen.stream_len(f) // 2304 + 1
                    if need > free:
                        toobig.append(f)
                        continue
                    free -= need
                new.append((f, filegen.expand(f["data"])))
            if toobig and kind == "dsk" and level == "container" and os.path.exists(path):
                # an addition that cannot fit is attempted on a container re-opened from the stored bytes: whether it is
                # refused is C15's business; here the files already stored must still list from that same object
                labels.append("refused_add")
                cont = DiskFile(buffer=list(open(path, "rb").read()), granule_fill_order=list(case["order"]) if case.get("order") else None)
                for f in toobig:
                    try:
                        cont.add_file(filegen.to_coco(f, filegen.expand(f["data"])))
                        break       # accepted although it cannot fit: judged by C15
                    except Exception:
                        pass
                    try:
                        mm = filegen.disk_listing_mismatch(cont.list_files(), [x for x, _ in model], [y for _, y in model])
                    except Exception as err:
                        mm = "listing raised {}: {}".format(type(err).__name__, err)
                    if mm:
                        return viol("session {}: after a refused addition ({} granules needed, {} free) the stored files no "
                                    "longer list from the same object: {}".format(sidx, filegen.stream_len(f) // 2304 + 1, free, mm),
                                    fid="C09:dsk:after-refused-add", labels=sorted(set(labels)))
            if not new:
                continue
            try:
                if level == "virtualfile":
                    vf = VirtualFile(SourceFile(path, file_type=SourceFileType.BINARY), vtype)
                    vf.open_virtual_file()
                    for f, d in new:
                        vf.add_coco_file(filegen.to_coco(f, d))
                    vf.save_virtual_file(append_mode=True)
                else:
                    prev = list(open(path, "rb").read()) if os.path.exists(path) else None
                    if kind == "cas":
                        cont = CassetteFile(buffer=prev)
                    else:       # re-opened from its bytes; the allocation order is the caller's choice
                        cont = DiskFile(buffer=prev, granule_fill_order=list(case["order"]) if case.get("order") else None)
                    # the same container object is listed before and after every addition (list -> add -> list)
                    sofar = list(model)
                    for f, d in [(None, None)] + new:
                        if f is not None:
                            cont.add_file(filegen.to_coco(f, d))
                            sofar.append((f, d))
                        seen = cont.list_files()
                        if kind == "cas":
                            mm = c06.listing_mismatch(seen, [x for x, _ in sofar], [y for _, y in sofar])
                            mm = mm[1] if mm else None
                        else:
                            mm = filegen.disk_listing_mismatch(seen, [x for x, _ in sofar], [y for _, y in sofar])
                        if mm:
                            return viol("session {}: listing the same container object after {} additions: {}".format(
                                sidx, len(sofar) - len(model), mm), fid="C09:{}:same-object-listing".format(kind), labels=labels)
                    with open(path, "wb") as fh:
                        fh.write(bytes(bytearray(cont.get_buffer())))
            except Exception as err:
                return viol("session {} ({} level) raised {}: {}".format(sidx, level, type(err).__name__, err),
                            fid="C09:{}:raise:{}:{}".format(kind, type(err).__name__, str(err)[:30]), labels=labels)
            model += new
            raw = open(path, "rb").read()
            if kind == "cas" and len(raw) >= dskref.IMAGE_SIZE:
                labels.append("big_cassette")
                if len(raw) % 256 == 0:
                    labels.append("big_cassette_whole_sectors")
            # 1. independent reader
            try:
                if kind == "cas":
                    bad = _cmp_cas(casref.parse(raw), model)
                else:
                    probs = dskref.fsck(raw)
                    bad = probs[0] if probs else _cmp_dsk(dskref.read(raw), model)
            except (casref.TapeError, dskref.DiskError) as err:
                bad = "image not readable: {}".format(err)
            if bad:
                return viol("after session {}: {}".format(sidx, bad), fid="C09:{}:stored".format(kind), labels=sorted(set(labels)))
            # 2. the tool's own typed re-open
            try:
                vf = VirtualFile(SourceFile(path, file_type=SourceFileType.BINARY), vtype)
                vf.open_virtual_file()
                listed = vf.list_files()
            except Exception as err:
                return viol("after session {}: re-opening as {} raised {}: {}".format(sidx, kind, type(err).__name__, err),
                            fid="C09:{}:reopen:{}".format(kind, str(err)[-30:]), labels=sorted(set(labels)))
            files = [f for f, _ in model]
            datas = [d for _, d in model]
            if kind == "cas":
                mm = c06.listing_mismatch(listed, files, datas)
                mm = mm[1] if mm else None
            else:
                mm = filegen.disk_listing_mismatch(listed, files, datas)
            if mm:
                return viol("after session {}: re-opened listing: {}".format(sidx, mm), fid="C09:{}:relist".format(kind),
                            labels=sorted(set(labels)))
            # 3. untyped re-open (sniffing)
            try:
                vf = VirtualFile(SourceFile(path, file_type=SourceFileType.BINARY))
                vf.open_virtual_file()
                sniffed = vf.virtual_file_type
            except Exception as err:
                return viol("after session {}: untyped open raised {}: {}".format(sidx, type(err).__name__, err),
                            fid="C09:{}:sniff-raise".format(kind), labels=sorted(set(labels)))
            if sniffed != vtype:
                return viol("after session {}: a {} image of {} bytes written by the tool is recognised as {}".format(
                    sidx, kind, len(raw), sniffed), fid="C09:{}:sniffed-as-{}".format(kind, sniffed), labels=sorted(set(labels)))
    labels = sorted(set(labels))
    return ok(labels=labels, nontrivial=len(case["steps"]) >= 2 or "big_cassette" in labels)
