"""C10 - an existing target file is never modified unless append applies to it."""
import os
import random

from hypothesis import strategies as st

from vlib import casref, driver, dskref, filegen
from vlib.harness import ok, skip, viol

PID = "C10"
RULE = ("Real processes. Every cell of tool {assembler.py, file_util.py with a cassette source, file_util.py with a disk "
        "source} x switch {--to_bin, --to_cas, --to_dsk} x {--append, no append} x pre-existing target {absent, empty, "
        "cassette image of 1-3 files, disk image, raw binary, arbitrary bytes (random / truncated tape header / "
        "disk-sized garbage / all zeros / all $FF / one byte repeated / zeros then one byte / disk-sized garbage with a blank first directory slot / a complete tape file followed by one that is cut off: 15 shapes, each in every cell), "
        "cassette >= 161,280 bytes, a 40-track disk image (184,320 bytes); one disk variant stores a complete cassette image as a file, one a three-granule file on a scattered chain, one a machine-language file without data bytes} is enumerated (162 cells, 2 content variants each, 15 for arbitrary bytes); "
        "Hypothesis draws further contents for the cells and 2-4 invocation sequences on one path. Decision model: "
        "modification is permitted iff append and kind(existing) == kind being written, kind() decided by the "
        "independent readers (valid Disk BASIC image -> disk; tape grammar with >= 1 file -> cassette; zero-length -> "
        "either when appending; anything else -> other; --to_bin onto non-image bytes -> either). Not permitted: bytes and mtime "
        "unchanged and the tool prints a message (any wording). Permitted / absent: if the file changed or appeared it must be a complete image "
        "of the requested kind holding the previous files plus the new one (bin: exactly the program bytes). "
        "Non-trivial = every case with an existing target or a sequence; distinct by case hash.")
ASSUMPTIONS = [
    "vlib/casref.py and vlib/dskref.py decide what kind of image a pre-existing target is",
    "a target that is both a valid disk image and starts with a valid tape (adversarial dual image) is not generated",
]
HEALTH = {"pre:absent": 12, "pre:cas": 12, "pre:dsk": 12, "pre:bigcas": 3, "pre:dsk40": 12, "not_permitted": 0.12, "permitted": 0.02}
EXHAUSTIVE = {"quick": ["all 162 cells of tool x switch x append x pre-existing target kind, 2 content variants each"],
              "thorough": ["all 162 cells x 2 content variants"]}

TOOLS = ["asm", "fu_cas", "fu_dsk"]
SWITCHES = ["--to_bin", "--to_cas", "--to_dsk"]
PRES = ["absent", "empty", "cas", "dsk", "rawbin", "arbitrary", "bigcas", "blankdsk", "dsk40"]
N_ARBITRARY = 15
PROGRAM = [" NAM PROG\n", " ORG $0E00\n", "START LDA #$41\n", " JSR $A30A\n", " BRA START\n", " FCB 1,2,3\n", " END START\n"]


def enumerated(tier, seed):
    for tool in TOOLS:
        for switch in SWITCHES:
            for append in (False, True):
                for pre in PRES:
                    for variant in (range(N_ARBITRARY) if pre == "arbitrary" else (0, 1, 2, 3) if pre == "dsk" else (0, 1)):
                        if pre in ("absent", "empty") and variant:
                            continue
                        if pre in ("bigcas", "blankdsk", "dsk40") and variant:
                            continue
                        k = 63 + variant if pre == "arbitrary" else variant * 977 + 5      # every arbitrary-content shape
                        if pre == "dsk" and variant:
                            k = {1: 981, 2: 982, 3: 983}[variant]     # a disk holding a tape image as a file / a scattered 3-granule file / an empty program
                        yield dict(steps=[dict(tool=tool, switch=switch, append=append)], pre=pre, k=k)
    # the same target spelled differently on the command line (./x, sub/../x, absolute, ~/x with HOME set): whatever the
    # spelling resolves to, an existing file may only change when append applies to it
    for tool in ("asm", "fu_cas"):
        for switch in SWITCHES:
            for append in (False, True):
                for pre in ("cas", "dsk", "rawbin"):
                    for spell in ("dot", "sub", "abs", "tilde"):
                        yield dict(steps=[dict(tool=tool, switch=switch, append=append)], pre=pre, k=5, spell=spell)
    # file_util with a --files selection onto existing images of the same kind: the files already there stay
    for tool in ("fu_cas", "fu_dsk"):
        for switch in ("--to_cas", "--to_dsk"):
            for append in (False, True):
                for pre in ("absent", "cas", "dsk"):
                    yield dict(steps=[dict(tool=tool, switch=switch, append=append, files=True)], pre=pre, k=5)
                    yield dict(steps=[dict(tool="asm", switch=switch, append=True), dict(tool=tool, switch=switch, append=append, files=True),
                                      dict(tool=tool, switch=switch, append=True, files=True)], pre=pre, k=982)
    # file_util with a selection that matches nothing, onto every kind of existing target
    for tool in ("fu_cas", "fu_dsk"):
        for switch in ("--to_cas", "--to_dsk"):
            for append in (False, True):
                for pre in ("cas", "dsk", "rawbin", "empty", "blankdsk"):
                    yield dict(steps=[dict(tool=tool, switch=switch, append=append, files="nomatch")], pre=pre, k=5)
    # one invocation, two output switches naming the same new path: the second save meets the image the first has just
    # written, which is of another kind
    for tool in TOOLS:
        for a in SWITCHES:
            for b in SWITCHES:
                if a != b:
                    for append in (False, True):
                        yield dict(steps=[dict(tool=tool, switch=a, switch2=b, append=append)], pre="absent", k=5)
                        # ... and naming two different new paths: each gets a complete image of its own kind
                        yield dict(steps=[dict(tool=tool, switch=a, switch2=b, append=append, other_path=True)], pre="absent", k=5)
    # program names that cannot be stored as bytes: the save fails, the existing image must survive
    for name in ("N\u20ac", "\u00c01", "\u540d\u524d"):
        for switch in ("--to_cas", "--to_dsk"):
            for pre in ("absent", "cas", "dsk"):
                yield dict(steps=[dict(tool="asm", switch=switch, append=True, name=name)], pre=pre, k=11)


_step = st.fixed_dictionaries(dict(tool=st.sampled_from(TOOLS), switch=st.sampled_from(SWITCHES), append=st.booleans(),
                                   files=st.sampled_from([False, False, True, "nomatch"])))
_cell = st.fixed_dictionaries(dict(steps=st.lists(_step, min_size=1, max_size=1), pre=st.sampled_from(PRES[:-3] + PRES[-2:]), k=st.integers(0, 10 ** 6)))
_seq = st.fixed_dictionaries(dict(steps=st.lists(_step, min_size=2, max_size=4), pre=st.sampled_from(["absent", "absent", "cas", "dsk", "rawbin"]),
                                  k=st.integers(0, 10 ** 6)))


def searches(tier):
    q = tier == "quick"
    return [("cells", _cell, 160 if q else 15000), ("sequences", _seq, 80 if q else 6000)]


def render(case):
    return case


def _small_files(rnd, n, kind):
    out = []
    for i in range(n):
        ln = rnd.choice([1, 3, 200, 255, 256, 300, 2300])
        ftype, dtype = rnd.choice([(2, 0), (2, 0), (0, 0), (0, 0xFF), (1, 0xFF), (3, 0xFF), (3, 0)] if kind == "cas" else
                                  [(2, 0), (2, 0), (0, 0), (0, 0xFF), (1, 0xFF)])
        f = dict(name="OLD%d" % i, ext="BIN", ftype=ftype, dtype=dtype, load=rnd.randrange(65536) if ftype == 2 else 0,
                 exec=rnd.randrange(65536) if ftype == 2 else 0, data=bytes(rnd.randrange(256) for _ in range(ln)))
        out.append(f)
    return out


def make_cas(files, lead=128, gapflag=0):
    spec = [dict(name=f["name"][:8].ljust(8).encode(), ftype=f["ftype"], dtype=f["dtype"], load=f["load"], exec=f["exec"],
                 data=f["data"], gap1=128, lead1=lead, gap2=128, lead2=lead, gapflag=gapflag, bgap=16, blead=32,
                 chunks=[255] * (len(f["data"]) // 255) + ([len(f["data"]) % 255] if len(f["data"]) % 255 else []))
            for f in files]
    return casref.write(spec)


def make_dsk(files, rnd, avoid_granule_zero=False, holes=False):
    free = list(range(68))
    rnd.shuffle(free)
    if avoid_granule_zero:
        free.remove(0)
        free.append(0)
    chains = []
    spec = []
    for f in files:
        d = dict(name=f["name"].upper().encode(), ext=b"BIN", ftype=f["ftype"], dtype=f["dtype"], load=f["load"], exec=f["exec"], data=f["data"])
        need = dskref.granules_needed(len(dskref.stream_of(d)))
        chains.append(free[:need])
        free = free[need:]
        spec.append(d)
    if holes:
        # killed files (first byte $00) in front of and between the live directory entries: the order of the live ones is kept
        slots, cur = [], 0
        for _ in spec:
            cur += rnd.choice([0, 1, 1, 3])
            slots.append(cur)
            cur += 1
        return dskref.write(spec, chains, slots=slots)
    return dskref.write(spec, chains)


def make_pre(pre, k):
    """-> (bytes or None, kind per the independent readers, list of files it holds)"""
    rnd = random.Random(k)
    if pre == "absent":
        return None, "absent", []
    if pre == "empty":
        return b"", "empty", []
    if pre == "cas":
        files = _small_files(rnd, 1 + k % 3, "cas")
        return make_cas(files, lead=rnd.choice([128, 128, 16])), "cas", files
    if pre == "dsk":
        files = _small_files(rnd, 1 + k % 2, "dsk")
        if k % 4 == 2:
            # a machine-language file of three granules on a scattered chain (the chain is shuffled by make_dsk)
            files[0] = dict(files[0], name="SCATTER", ftype=2, dtype=0, load=0x3000, exec=0x3003,
                            data=bytes(rnd.randrange(256) for _ in range(5000)))
        if k % 4 == 3:
            # a machine-language file without any data (an ORG/EQU-only program saved earlier): header and trailer only
            files[0] = dict(files[0], name="NOBYTES", ftype=2, dtype=0, load=0x3000, exec=0x3000, data=b"")
        if k % 4 == 1:
            # a disk that holds a cassette image as one of its files - never in granule 0: an image that *begins* with a
            # tape stream and is also a valid disk has two honest readings and is not generated (DESIGN 9.5)
            inner = make_cas(_small_files(rnd, 1, "cas"))
            files[0] = dict(files[0], name="TAPE", ftype=1, dtype=0xFF, load=0, exec=0, data=inner)
        return make_dsk(files, rnd, avoid_granule_zero=True), "dsk", files
    if pre == "dsk40":          # a 40-track image: the 35-track layout followed by five more (unused) tracks
        files = _small_files(rnd, 1 + k % 2, "dsk")
        return make_dsk(files, rnd, avoid_granule_zero=True) + b"\xff" * (5 * 18 * 256), "dsk", files
    if pre == "blankdsk":       # a freshly formatted disk image: a disk holding no files
        return b"\xff" * dskref.IMAGE_SIZE, "dsk", []
    if pre == "rawbin":
        n = rnd.choice([1, 7, 300, 5000])
        return bytes([0x86, 0x41]) + bytes(rnd.randrange(256) for _ in range(n)), "other", []
    if pre == "arbitrary":
        which = k % N_ARBITRARY
        if which == 5:        # what --to_bin writes for a table of zeros / RMB area
            return b"\x00" * rnd.choice([1, 2, 255, 256, 300, 5000]), "other", []
        if which == 6:
            return b"\xff" * rnd.choice([1, 256, 5000]), "other", []
        if which == 7:
            return bytes([rnd.choice([0x01, 0x3C, 0x80, 0xAA, 0xFE])]) * rnd.choice([2, 300]) + b"\x00" * rnd.choice([0, 1, 300]), "other", []
        if which in (9, 10, 11):
            # disk-sized (or larger) garbage whose first directory slot reads "never used" / "deleted": not a disk
            raw = bytearray(rnd.randrange(1, 255) for _ in range(161280 if which != 11 else 200000))
            raw[0] = 0x12
            raw[dskref.DIR_OFFSET] = 0xFF if which != 10 else 0x00
            return bytes(raw), "other", []
        if which in (12, 13, 14):
            # one complete tape file followed by a second one that is cut off (inside a data block, at two places / before its
            # end-of-file block): damaged content, not a cassette image
            files = _small_files(rnd, 2, "cas")
            files[1] = dict(files[1], data=bytes(rnd.randrange(256) for _ in range(600)))
            one = make_cas(files[:1], lead=128)
            two = make_cas(files, lead=128)
            second = len(two) - len(one)
            cut = {12: len(one) + second * 2 // 5, 13: len(one) + second * 7 // 10, 14: len(two) - 6}[which]
            return two[:cut], "other", []
        if which == 8:        # zeros, then something
            return b"\x00" * rnd.choice([1, 128, 4000]) + bytes([rnd.randrange(1, 256)]), "other", []
        if which == 0:
            return bytes(rnd.randrange(256) for _ in range(rnd.choice([1, 100, 4096]))), "other", []
        if which == 1:
            return b"\x00" * 128 + b"\x55" * 128 + b"\x55\x3c\x00\x0f" + b"TRUNC", "other", []
        if which == 2:
            return bytes(rnd.randrange(256) for _ in range(161280)), "other", []
        if which == 3:
            return b"\x55\x3c\x00\x0f", "other", []
        return b"hello, this is a text file\n", "other", []
    if pre == "bigcas":
        files = [dict(name="BIG%d" % i, ext="BIN", ftype=2, dtype=0, load=0x1000, exec=0x1000,
                      data=bytes([0x00 if (k + i) % 2 else 0xFF]) * 65000) for i in range(3)]
        return make_cas(files), "cas", files
    raise KeyError(pre)


def classify(raw):
    """kind of a file's content per the independent readers"""
    if raw is None:
        return "absent", []
    if len(raw) == 0:
        return "empty", []
    if len(raw) >= dskref.IMAGE_SIZE:       # a longer image (40 tracks) is a disk by its first 35 tracks
        try:
            if not dskref.fsck(raw[:dskref.IMAGE_SIZE]):
                return "dsk", dskref.read(raw[:dskref.IMAGE_SIZE])
        except dskref.DiskError:
            pass
    try:
        files = casref.parse(raw)
        if files:
            return "cas", files
    except casref.TapeError:
        pass
    return "other", []


def execute(case):
    labels = ["pre:" + case["pre"]]
    if len(case["steps"]) > 1:
        labels.append("sequence")
    pre_bytes, pre_kind, _ = make_pre(case["pre"], case["k"])
    prog = driver.assemble(PROGRAM)
    assert prog.kind == "OK"
    src_file = dict(name="SRCFILE", ext="BIN", ftype=2, dtype=0, load=0x2000, exec=0x2002, data=bytes(range(40)))
    rnd = random.Random(case["k"] + 1)
    with driver.TempDir() as tmp:
        target = os.path.join(tmp, "target.out")
        if pre_bytes is not None:
            with open(target, "wb") as fh:
                fh.write(pre_bytes)
        with open(os.path.join(tmp, "prog.asm"), "w") as fh:
            fh.write("".join(PROGRAM))
        with open(os.path.join(tmp, "noname.asm"), "w") as fh:
            fh.write("".join(l for l in PROGRAM if " NAM " not in l))
        with open(os.path.join(tmp, "source.cas"), "wb") as fh:
            fh.write(make_cas([src_file]))
        with open(os.path.join(tmp, "source.dsk"), "wb") as fh:
            fh.write(make_dsk([src_file], rnd))
        extra_file = dict(name="EXTRA", ext="BIN", ftype=2, dtype=0, load=0x3000, exec=0x3000, data=bytes(range(7, 90)))
        with open(os.path.join(tmp, "source2.cas"), "wb") as fh:      # two files: used with --files srcfile
            fh.write(make_cas([extra_file, src_file]))
        with open(os.path.join(tmp, "source2.dsk"), "wb") as fh:
            fh.write(make_dsk([extra_file, src_file], rnd))
        spell = case.get("spell")
        os.makedirs(os.path.join(tmp, "sub"), exist_ok=True)
        spelled = {None: "target.out", "dot": "./target.out", "sub": "sub/../target.out", "abs": target, "tilde": "~/target.out"}[spell]
        if spell:
            labels.append("spelled:" + spell)
        for sidx, step in enumerate(case["steps"]):
            before = open(target, "rb").read() if os.path.exists(target) else None
            kind, held = classify(before)
            if before is not None:
                os.utime(target, ns=(10 ** 18, 10 ** 18))
            want_kind = {"--to_bin": "bin", "--to_cas": "cas", "--to_dsk": "dsk"}[step["switch"]]
            odd_name = step.get("name")
            nomatch = False
            if step["tool"] == "asm":
                argv = ["noname.asm" if odd_name else "prog.asm", "--name", odd_name or "PROG", step["switch"], spelled]
                script = "assembler.py"
                new_data, new_name = prog.image, odd_name or "PROG"
            else:
                argv = ["source.cas" if step["tool"] == "fu_cas" else "source.dsk", step["switch"], spelled]
                nomatch = step.get("files") == "nomatch" and step["switch"] != "--to_bin"
                if nomatch:
                    # a selection that matches nothing: nothing to save, and nothing that could justify touching the target
                    argv += ["--files", "NOSUCHFL"]
                    labels.append("selection_matches_nothing")
                elif step.get("files") and step["switch"] != "--to_bin":
                    # a selection from a source of two files: what is already on the target is no business of --files
                    argv = [argv[0].replace("source.", "source2."), step["switch"], spelled, "--files", "srcfile"]
                    labels.append("with_files_selection")
                script = "file_util.py"
                new_data, new_name = src_file["data"], "SRCFILE"
            if step["append"]:
                argv.append("--append")
            if step.get("switch2"):
                argv += [step["switch2"], "target2.out" if step.get("other_path") else spelled]
            res = driver.run_cli(script, argv, cwd=tmp, env_extra={"HOME": tmp})
            if step.get("switch2") and step.get("other_path"):
                labels.append("two_switches_two_paths")
                kinds = {"--to_bin": "bin", "--to_cas": "cas", "--to_dsk": "dsk"}
                if "Traceback" in res.stderr:
                    return viol("{} {}: traceback".format(script, argv), fid="C10:crash", labels=labels)
                for sw, name in ((step["switch"], "target.out"), (step["switch2"], "target2.out")):
                    pth = os.path.join(tmp, name)
                    got = open(pth, "rb").read() if os.path.exists(pth) else None
                    if got is None:
                        return viol("{} {}: {} was not written".format(script, argv[1:], name), fid="C10:two-paths-missing", labels=labels)
                    if kinds[sw] == "bin":
                        good = got == bytes(new_data)
                        what = "{} bytes".format(len(got))
                    else:
                        k2, held = classify(got)
                        good = k2 == kinds[sw] and len(held) == 1
                        what = "{} image holding {} files".format(k2, len(held))
                    if not good:
                        return viol("{} {}: {} should be a complete {} image of the one new file, it is: {}".format(
                            script, argv[1:], name, kinds[sw], what), fid="C10:two-paths-content", labels=labels)
                os.remove(os.path.join(tmp, "target2.out"))
                continue
            if step.get("switch2"):
                labels.append("two_switches_one_path")
                after = open(target, "rb").read() if os.path.exists(target) else None
                kinds = {"--to_bin": "bin", "--to_cas": "cas", "--to_dsk": "dsk"}
                akind, aheld = classify(after)
                is_bin = after == bytes(new_data)
                got = "bin" if is_bin else akind
                if "Traceback" in res.stderr:
                    return viol("{} {}: traceback".format(script, argv), fid="C10:crash", labels=labels)
                if after is None or got not in (kinds[step["switch"]], kinds[step["switch2"]]):
                    return viol("{} {}: the path holds {} ({} bytes), neither of the two kinds asked for".format(
                        script, argv[1:], got, len(after or b"")), fid="C10:two-switches-result", labels=labels)
                said = [l for l in (res.stdout + res.stderr).splitlines() if l.strip() and not l.startswith(("Saved to", "-- File"))]
                if not said:
                    return viol("{} {}: two saves of different kinds onto one path, the later one cannot apply to what the earlier one "
                                "wrote, yet nothing is reported; the path now holds a {} image".format(script, argv[1:], got),
                                fid="C10:two-switches-silent", labels=labels)
                continue
            if res.status == "timeout" or ("Traceback" in res.stderr and not odd_name):
                return viol("step {} {}: {} {}".format(sidx, argv, res.status, res.stderr.strip().splitlines()[-1:] ),
                            fid="C10:crash", labels=labels)
            after = open(target, "rb").read() if os.path.exists(target) else None
            mtime_same = before is not None and after is not None and os.stat(target).st_mtime_ns == 10 ** 18
            changed = after != before or (before is not None and not mtime_same)
            # decision model
            if kind == "absent":
                verdict = "new"
            elif kind == "empty":
                verdict = "either" if step["append"] else "forbidden"     # no append flag: never touched, whatever it holds
            elif step["append"] and kind == want_kind:
                verdict = "permitted"
            elif step["append"] and want_kind == "bin" and kind == "other":
                verdict = "either"
            else:
                verdict = "forbidden"
            where = "step {} ({} {}{}; existing target: {} {} bytes)".format(
                sidx, step["tool"], step["switch"], " --append" if step["append"] else "", kind, len(before or b""))
            if verdict == "forbidden":
                labels.append("not_permitted")
                if changed:
                    akind, _ = classify(after)
                    return viol("{}: the target was modified (now {} {} bytes); stdout={!r}".format(
                        where, akind, len(after or b""), res.stdout[-200:]), fid="C10:modified:{}:{}:{}".format(
                        step["switch"], "append" if step["append"] else "noappend", kind), labels=sorted(set(labels)))
                out = (res.stdout + res.stderr).strip()
                if not out:     # the wording is the tool's business; saying nothing at all is not
                    return viol("{}: target left alone but the user is not told why; stdout={!r}".format(where, out[-200:]),
                                fid="C10:no-explanation", labels=sorted(set(labels)))
                continue
            if nomatch and kind in ("absent", "empty"):
                continue            # what a save of nothing onto a new or empty path leaves behind is not specified
            if nomatch:
                changed = after != before       # rewriting the same bytes is no modification
            if verdict == "permitted":
                labels.append("permitted")
                if not changed and not odd_name and spell != "tilde" and "refus" not in (res.stdout + res.stderr).lower() and res.status == 0 \
                        and not (res.stdout + res.stderr).strip():
                    return viol("{}: append applies, the tool reports nothing and the target is unchanged".format(where),
                                fid="C10:silent-no-op", labels=sorted(set(labels)))
            if not changed:
                if spell == "tilde":
                    continue        # whether ~ is expanded is the tool's choice; if not, the path names nothing
                if verdict == "new" and not odd_name:
                    return viol("{}: no file was written; stdout={!r}".format(where, res.stdout[-200:]), fid="C10:not-created",
                                labels=sorted(set(labels)))
                continue
            # the file changed or appeared: it must be a complete image of the requested kind
            akind, aheld = classify(after)
            if want_kind == "bin":
                if after != bytes(new_data):
                    return viol("{}: binary output is {} bytes, not the {} program bytes".format(where, len(after), len(new_data)),
                                fid="C10:incomplete-bin", labels=sorted(set(labels)))
                continue
            if akind != want_kind:
                return viol("{}: the file written is not a complete {} image (independent readers say {})".format(where, want_kind, akind),
                            fid="C10:incomplete-image", labels=sorted(set(labels)))
            prev = held if kind == want_kind and verdict == "permitted" else []
            names = [filegen.norm_name(f.name if hasattr(f, "name") else f["name"]) for f in aheld]
            want_names = [filegen.norm_name(f.name if hasattr(f, "name") else f["name"]) for f in prev] + ([] if nomatch else [filegen.norm_name(new_name)])
            if names != want_names:
                return viol("{}: image holds {} expected {}".format(where, names, want_names), fid="C10:image-content",
                            labels=sorted(set(labels)))
            if nomatch:
                continue
            last = aheld[-1]
            ldata = bytes(last.data) if hasattr(last, "data") else bytes(last["data"])
            if ldata != bytes(new_data):
                return viol("{}: the new file's data differs".format(where), fid="C10:image-data", labels=sorted(set(labels)))
    return ok(labels=sorted(set(labels)), nontrivial=case["pre"] != "absent" or len(case["steps"]) > 1)
