"""C11 - the saved image holds the assembled program, at its origin, under its name."""
import os

from hypothesis import strategies as st

from vlib import casref, driver, dskref, filegen, proggen
from vlib.harness import ok, skip, viol

PID = "C11"
RULE = ("Generated programs (the C02 generator: all instruction forms, data directives, labels, EQU, any origin or none) "
        "optionally padded by an RMB/FCB block to sizes 300 / 3000 / 9000 or to an exact image length on a tape-block, "
        "sector or granule edge (254..257, 509..511, 2290..2309, 4596..4611, 6902..6912), or to 20-64 KB by a table of "
        "distinct words (enumerated at 22-28 granules); enumerated programs that begin with data and restate the current "
        "location with a second ORG before the first instruction (the load address stays the first ORG), and programs whose last byte is at $FFFF with NAM and END after it, and programs whose NAM (and ORG) sit in an included header file, and page-zero origins in short spellings ($80, %10000000, 32, an EQU symbol); with or "
        "without NAM (1-12 letters/digits in either case), with or without --name, with END / END label / no END, "
        "are assembled by a real assembler.py process with each non-empty subset of {--to_bin, --to_cas, --to_dsk}. "
        "Oracle: reference image = in-process Program on the same lines; .bin == image byte for byte; the independent "
        "tape / disk readers find exactly one file, type 2, binary, data == image, load == origin (0 without ORG), "
        "entry in {origin, address of END's operand}, name == NAM (else --name) case-insensitively, padded/truncated to "
        "8; with no name at all no cas/dsk file exists; file_util.py --list agrees on name, addresses and length. "
        "Non-trivial = image >= 256 bytes, or origin absent / below $100 / above $8000, or a name longer than 8 or "
        "with lower case; distinct by case hash.")
ASSUMPTIONS = [
    "the in-process assembly of the same lines is the reference image (its correctness is C01-C05's subject)",
    "vlib/casref.py and vlib/dskref.py read the outputs",
]
HEALTH = {"nam": 0.12, "cli_name_only": 0.06, "no_name": 0.02, "multi_switch": 0.12, "edge_length": 0.06, "org_restated_after_data": 20, "ends_at_top_of_memory": 20, "nam_in_included_file": 10, "origin_in_short_spelling": 10}
EXHAUSTIVE = {"quick": ["images of 50600..64000 bytes (22-28 granules) x {--to_dsk, all three switches}"], "thorough": ["as quick"]}

# image lengths on the container formats' edges: tape block (255), disk sector (256) and granule (2304) with the
# 10 header/trailer bytes of a machine-language file on disk
EDGE_LENGTHS = ([254, 255, 256, 257, 509, 510, 511] + list(range(2290, 2310)) + list(range(4596, 4612)) + [6902, 6903, 6912])

_NAMECH = "ABCDEFGHIJKLMNOPQRSTUVWXYZabcdefghijklmnopqrstuvwxyz0123456789"
_name = st.text(alphabet=_NAMECH, min_size=1, max_size=12).filter(lambda s: s[0].isalpha())
_switches = st.sampled_from([["bin"], ["cas"], ["dsk"], ["bin", "cas"], ["bin", "dsk"], ["cas", "dsk"], ["bin", "cas", "dsk"]])
_case = st.fixed_dictionaries(dict(
    prog=proggen.program, nam=st.one_of(_name, _name, st.none(), st.none()), cli_name=st.one_of(_name, _name, st.none()),
    nam_pos=st.integers(0, 3), bulk=st.sampled_from([0, 0, 0, 300, 300, 3000, 9000]), org_first=st.sampled_from([None, None, None, 0x0E00, 0x7000]),
    target_len=st.one_of(st.none(), st.none(), st.sampled_from(EDGE_LENGTHS)), switches=_switches,
    end=st.sampled_from(["none", "plain", "label"])))


def enumerated(tier, seed):
    # images of 22 / 23 / 24 / 26 / 28 granules (the disk's default allocation order repeats itself from the 23rd on)
    tiny = {"org": 0x0100, "stmts": [{"lab": "", "k": "org", "addr": 0x0100}, {"lab": "L0", "k": "imm8", "mn": "LDA", "val": proggen.lit(1)}]}
    for bulk in (50600, 50670, 50680, 52480, 57000, 64000):
        for sw in (["dsk"], ["bin", "cas", "dsk"]):
            yield dict(prog=tiny, nam="BIGPROG", cli_name=None, nam_pos=0, bulk=bulk, target_len=None, switches=sw, end="plain")
    # a program whose last byte is at $FFFF and whose NAM (and END) come after it: the name is still the NAM operand
    for org, bulk in ((0xFFFE, 0), (0xFF00, 253), (0xC000, 16381)):
        top = {"org": org, "stmts": [{"lab": "", "k": "org", "addr": org}, {"lab": "L0", "k": "imm8", "mn": "LDA", "val": proggen.lit(1)}]}
        for sw in (["cas"], ["dsk"], ["bin", "cas", "dsk"]):
            for end in ("none", "plain", "label"):
                for cli_name in (None, "OTHER"):
                    yield dict(prog=top, nam="TopMem", cli_name=cli_name, nam_pos=99, bulk=bulk, target_len=None, switches=sw, end=end, top=True)
    # the NAM (and the ORG) come from an included header file
    body = {"org": 0x0E00, "stmts": [{"lab": "", "k": "org", "addr": 0x0E00}, {"lab": "L0", "k": "imm8", "mn": "LDA", "val": proggen.lit(1)},
                                      {"lab": "", "k": "inh", "mn": "RTS"}]}
    for header in (1, 2):
        for sw in (["cas"], ["dsk"], ["bin", "cas", "dsk"]):
            for cli_name in (None, "OTHER"):
                for end in ("none", "label"):
                    yield dict(prog=body, nam="Gizmo", cli_name=cli_name, nam_pos=0, bulk=0, target_len=None, switches=sw, end=end, header=header)
    # page-zero origins in their short spellings (two hex digits, eight binary digits, decimal, an EQU symbol)
    for addr, text in ((0x80, "$80"), (0xFF, "$FF"), (0x00, "$00"), (0x80, "%10000000"), (0x20, "32"), (0x80, "ZP"), (0x7F, "$7F")):
        stmts = ([{"lab": "ZP", "k": "equ", "val": {"lit": 0x80, "sp": "hex2"}}] if text == "ZP" else []) + [
            {"lab": "", "k": "org", "addr": addr, "text": text}, {"lab": "L0", "k": "imm8", "mn": "LDA", "val": proggen.lit(1)},
            {"lab": "", "k": "mem", "mn": "STA", "val": {"sym": "L0", "op": "", "c": 0}, "force": ">"}, {"lab": "", "k": "inh", "mn": "RTS"}]
        for sw in (["cas"], ["dsk"], ["bin", "cas", "dsk"]):
            yield dict(prog={"org": addr, "stmts": stmts}, nam="ZPAGE", cli_name=None, nam_pos=0, bulk=0, target_len=None, switches=sw, end="label", short_org=True)
    # a program that starts with data and restates the current location with an ORG before its first instruction: the
    # image still starts at the first ORG, and that is the load address
    L = proggen.lit
    datas = [[{"lab": "TBL", "k": "fcb", "vals": [L(1), L(2), L(3), L(4)]}, {"lab": "", "k": "fdb", "vals": [L(0x1234), L(0xFFFF)]},
              {"lab": "MSG", "k": "fcc", "delim": "/", "text": "hi"}],
             [{"lab": "BUF", "k": "rmb", "val": L(16)}],
             [{"lab": "", "k": "fdb", "vals": [L(7)]}]]
    for org in (0x0020, 0x3000, 0xE000):
        for data in datas:
            n = sum(proggen.size_bounds(d)[0] for d in data)
            stmts = [{"lab": "", "k": "org", "addr": org}] + [dict(d) for d in data] + [
                {"lab": "", "k": "org", "addr": org + n}, {"lab": "START", "k": "imm8", "mn": "LDA", "val": L(1)}, {"lab": "", "k": "inh", "mn": "RTS"}]
            for sw in (["cas"], ["dsk"], ["bin", "cas", "dsk"]):
                for end in ("none", "label"):
                    yield dict(prog={"org": org, "stmts": stmts}, nam="DATAORG", cli_name=None, nam_pos=0, bulk=0, target_len=None, switches=sw, end=end, org_here=True)


_big_case = st.fixed_dictionaries(dict(
    prog=proggen.small_program, nam=_name, cli_name=st.none(), nam_pos=st.just(0), bulk=st.sampled_from([20000, 40000, 60000]),
    target_len=st.none(), switches=_switches, end=st.sampled_from(["none", "plain"])))


def searches(tier):
    if tier == "quick":
        return [("programs", _case, 640), ("large_programs", _big_case, 16)]
    return [("programs", _case, 30000), ("large_programs", _big_case, 400)]


def build(case):
    prog = case["prog"]
    stmts = []
    for s in prog["stmts"]:
        if s["k"] in ("nam", "end"):
            if s.get("lab"):
                stmts.append({"lab": s["lab"], "k": "inh", "mn": "NOP"})   # keep the label other statements refer to
            continue
        stmts.append(dict(s))
    bulk = case["bulk"]
    if case.get("target_len"):
        # pad the program so that the image has exactly the wanted length (needs the length of the unpadded program)
        base = driver.assemble(proggen.render(dict(prog, stmts=stmts)), timeout=120)
        if base.kind == "OK" and len(base.image) + 2 <= case["target_len"]:
            bulk = case["target_len"] - len(base.image) - 1
    if bulk >= 20000:
        # large images carry data that differs from granule to granule (a table of words), so that a chunk stored in
        # the wrong place or twice cannot go unnoticed
        words = (bulk - 1) // 2
        for i in range(0, words, 8):
            stmts.append({"lab": "", "k": "fdb", "vals": [proggen.lit((j * 7 + 3) % 65536) for j in range(i, min(i + 8, words))]})
        if (bulk - 1) % 2:
            stmts.append({"lab": "", "k": "fcb", "vals": [proggen.lit(0x55)]})
        stmts.append({"lab": "", "k": "fcb", "vals": [proggen.lit(0xAA)]})
    elif bulk:
        stmts.append({"lab": "", "k": "rmb", "val": proggen.lit(bulk)})
        stmts.append({"lab": "", "k": "fcb", "vals": [proggen.lit(0xAA)]})
    if case.get("org_first") is not None and prog["org"] is not None and prog["org"] != case["org_first"]:
        # an earlier ORG that the program's own ORG overrides before any byte is emitted (a template default)
        stmts.insert(0, {"lab": "", "k": "org", "addr": case["org_first"]})
    if case["nam"]:
        stmts.insert(min(case["nam_pos"], len(stmts)), {"lab": "", "k": "nam", "text": case["nam"]})
    first_label = next((s["lab"] for s in stmts if s.get("lab") and s["k"] in proggen.INSTR_KINDS), None)
    if case["end"] == "plain" or (case["end"] == "label" and not first_label):
        stmts.append({"lab": "", "k": "end", "to": None})
    elif case["end"] == "label":
        stmts.append({"lab": "", "k": "end", "to": first_label})
    return proggen.render(dict(prog, stmts=stmts)), (first_label if case["end"] == "label" else None)


def render(case):
    lines, _ = build(case)
    return dict(nam=case["nam"], cli_name=case["cli_name"], switches=case["switches"], bulk=case["bulk"], end=case["end"],
                source=[l.rstrip("\n") for l in lines][:25])


def execute(case):
    lines, end_label = build(case)
    ref = driver.assemble(lines, timeout=120)
    labels = []
    if ref.kind != "OK":
        return skip("program not accepted in process ({}: {})".format(ref.kind, (ref.message or "")[:40]), labels=labels)
    if len(ref.image) == 0:
        return skip("program emits no bytes", labels=labels)
    image = ref.image
    # the origin is what the source says (the ORG in force when the first byte is emitted; 0 without ORG), confirmed
    # by the listing address of the first statement that emits bytes - not what Program.origin reports
    origin = case["prog"]["org"] if case["prog"]["org"] is not None else 0
    first_row = next((r[0] for r in ref.rows if r[1] and r[0] is not None), None)
    if first_row is not None and first_row != origin:
        return skip("harness: first byte listed at ${:04X}, source origin ${:04X}".format(first_row, origin), labels=labels)
    expect_name = case["nam"] or case["cli_name"]
    if case["nam"]:
        labels.append("nam")
    elif case["cli_name"]:
        labels.append("cli_name_only")
    else:
        labels.append("no_name")
    if len(case["switches"]) > 1:
        labels.append("multi_switch")
    if case.get("top"):
        labels.append("ends_at_top_of_memory")
    if case.get("short_org"):
        labels.append("origin_in_short_spelling")
    if case.get("org_here"):
        labels.append("org_restated_after_data")
    if len(image) in EDGE_LENGTHS:
        labels.append("edge_length")
    entry_ok = {origin}
    if end_label:
        entry_ok.add(dict(ref.symbols).get(end_label, origin))
    argv = ["prog.asm"]
    if case["cli_name"]:
        argv += ["--name", case["cli_name"]]
    for sw in case["switches"]:
        argv += ["--to_" + sw, "out." + sw]
    with driver.TempDir() as tmp:
        main_lines = lines
        if case.get("header"):
            # the first `header` lines (NAM, or NAM and ORG) live in a file of their own, spliced in by INCLUDE
            labels.append("nam_in_included_file")
            with open(os.path.join(tmp, "header.asm"), "w", newline="") as fh:
                fh.write("".join(lines[:case["header"]]))
            main_lines = [" INCLUDE header.asm\n"] + lines[case["header"]:]
        with open(os.path.join(tmp, "prog.asm"), "w", newline="") as fh:
            fh.write("".join(main_lines))
        res = driver.run_cli("assembler.py", argv, cwd=tmp)
        if res.status != 0 or "Traceback" in res.stderr:
            return viol("assembler.py {} exited {}: {!r} {!r}".format(argv, res.status, res.stdout[-200:], res.stderr[-200:]),
                        fid="C11:exit", labels=labels)
        outs = {}
        for sw in ("bin", "cas", "dsk"):
            p = os.path.join(tmp, "out." + sw)
            outs[sw] = open(p, "rb").read() if os.path.exists(p) else None
        listing = {}
        for sw in ("cas", "dsk"):
            if outs[sw] is not None:
                listing[sw] = driver.run_cli("file_util.py", ["out." + sw, "--list"], cwd=tmp)
    for sw in ("bin", "cas", "dsk"):
        if sw not in case["switches"] and outs[sw] is not None:
            return viol("out.{} written although --to_{} was not given".format(sw, sw), fid="C11:unrequested", labels=labels)
    if "bin" in case["switches"]:
        if outs["bin"] != image:
            return viol("--to_bin wrote {} bytes, the assembled image has {} (first difference at {})".format(
                len(outs["bin"] or b""), len(image), next((i for i, (a, b) in enumerate(zip(outs["bin"] or b"", image)) if a != b), -1)),
                fid="C11:bin", labels=labels)
    for sw in ("cas", "dsk"):
        if sw not in case["switches"]:
            continue
        raw = outs[sw]
        if not expect_name:
            if raw is not None:
                return viol("no NAM and no --name but out.{} was created".format(sw), fid="C11:created-without-name", labels=labels)
            continue
        if raw is None:
            return viol("out.{} was not created; stdout={!r}".format(sw, res.stdout[-200:]), fid="C11:not-created", labels=labels)
        try:
            if sw == "cas":
                files = [f.as_dict() for f in casref.parse(raw)]
            else:
                probs = dskref.fsck(raw)
                if probs:
                    return viol("out.dsk is not a valid image: {}".format(probs[0]), fid="C11:dsk-fsck", labels=labels)
                files = dskref.read(raw)
        except (casref.TapeError, dskref.DiskError) as err:
            return viol("out.{} unreadable: {}".format(sw, err), fid="C11:unreadable", labels=labels)
        if len(files) != 1:
            return viol("out.{} holds {} files".format(sw, len(files)), fid="C11:count", labels=labels)
        f = files[0]
        if f["ftype"] != 2 or f["dtype"] != 0:
            return viol("out.{}: file type/data type {}/{} is not machine language / binary".format(sw, f["ftype"], f["dtype"]),
                        fid="C11:type", labels=labels)
        if bytes(f["data"]) != image:
            return viol("out.{}: stored data ({} bytes) is not the assembled image ({} bytes)".format(sw, len(f["data"]), len(image)),
                        fid="C11:data", labels=labels)
        if f["load"] != origin:
            return viol("out.{}: load address ${:04X}, program origin ${:04X}".format(sw, f["load"], origin), fid="C11:load", labels=labels)
        if f["exec"] not in entry_ok:
            return viol("out.{}: entry address ${:04X}, expected one of {}".format(sw, f["exec"], sorted(entry_ok)), fid="C11:entry", labels=labels)
        if filegen.norm_name(f["name"]) != filegen.norm_name(expect_name):
            return viol("out.{}: name {!r}, expected {!r} (NAM {!r}, --name {!r})".format(sw, f["name"], expect_name, case["nam"], case["cli_name"]),
                        fid="C11:name", labels=labels)
        lst = listing[sw]
        text = lst.stdout
        if lst.status != 0 or "Data Len:   {} bytes".format(len(image)) not in text or \
                "Load Addr:  ${:04X}".format(origin) not in text or expect_name[:8].casefold() not in text.casefold():
            return viol("file_util.py --list out.{} disagrees: status {} {!r}".format(sw, lst.status, text[:300]),
                        fid="C11:list", labels=labels)
    nontrivial = len(image) >= 256 or ref.origin is None or origin < 0x100 or origin >= 0x8000 or \
        (expect_name and (len(expect_name) > 8 or expect_name != expect_name.upper()))
    return ok(labels=labels, nontrivial=bool(nontrivial))
