"""C12 - no accepted statement ever yields a malformed or silently truncated instruction."""
import re

from hypothesis import strategies as st

from vlib import asmmodel as A
from vlib import driver
from vlib import ref6809 as R
from vlib.harness import ok, skip, viol
from checks import c01

PID = "C12"
RULE = ("Program = ORG $1000 / <mnemonic> <operand text> / ZZEND NOP. Operand text comes from (i) an enumerated list of "
        "grammar-valid shapes with invalid content and of operands naming a label (the following statement or the statement itself: LBRA ZZEND, LDA ZZEND,PCR ...) for every one of the 139 mnemonics (out-of-width values, registers "
        "that do not exist or do not apply, modes the datasheet does not give the instruction), (ii) Hypothesis "
        "single- and double-character mutations (delete, duplicate, swap, replace, insert, bracket) of valid operands, "
        "and every single-character deletion/duplication of a base set enumerated, (iii) Hypothesis strings over the "
        "operand alphabet [A-Za-z0-9$#%<>[],+-*/'\"@.] of length 0-16. Oracle, applied whenever the statement is "
        "accepted: image minus the sentinel decodes as exactly one legal instruction of the mnemonic's alias set "
        "consuming all bytes; byte count equals the space the listing reserves (next row address - row address); the "
        "decoded addressing mode, registers and indirection are exactly those written (independent operand-shape "
        "parser); when the value is a plain literal it must fit the width and equal the decoded value. Class (i) must "
        "be rejected. Context families: a label,PCR statement followed by 1-3 further label,PCR statements and a gap of "
        "108..127 bytes; two statements naming one label (at $0010, $00F0, $1000) in every ordered pair of 34 "
        "mnemonic/operand forms - each statement must decode on its own at the length the listing reserves. "
        "Non-trivial = statement accepted, or class (i); distinct by (mnemonic, operand text).")
ASSUMPTIONS = [
    "vlib/ref6809.py is the trusted decoder / mode table",
    "crashes and hangs are judged by C13, not here (counted as skipped)",
    "register names are matched case-insensitively; lower-case registers are not generated on purpose",
]
HEALTH = {"accepted": 0.012, "class:invalid_by_construction": 1600}
FUZZ = {"target": "fuzz/fuzz_asm.py", "seconds": {"quick": 0, "thorough": 180}}
EXHAUSTIVE = {"quick": ["invalid-by-construction operand list x all 139 mnemonics",
                        "every single-character deletion and duplication of 120 base operands x 12 mnemonics",
                        "every ordered pair of 34 forms naming one label x 3 label addresses",
                        "every valid operand in lower and alternating case x 12 mnemonics"],
              "thorough": ["invalid-by-construction operand list x all 139 mnemonics",
                           "every single-character deletion and duplication of 120 base operands x 12 mnemonics"]}

ALPHABET = "ABDXYUSPCRZQWabxy0123456789$#%<>[],+-*/'\"@."
REP_MNEMONICS = ["LDA", "LDX", "LDY", "STA", "STS", "LEAX", "JMP", "CLR", "CMPD", "ANDCC", "BRA", "PSHS", "PULU", "TFR", "NOP", "LBEQ"]

# ---------------------------------------------------------------- independent operand-shape parser

_LIT = re.compile(r"^(?:(-?\d+)|\$([0-9A-Fa-f]+)|%([01]+)|'(.))$")


def parse_literal(text):
    m = _LIT.match(text)
    if not m:
        return None
    if m.group(1) is not None:
        return int(m.group(1))
    if m.group(2) is not None:
        return int(m.group(2), 16)
    if m.group(3) is not None:
        return int(m.group(3), 2)
    return ord(m.group(4))


_RIGHT = re.compile(r"^(-{0,2})(X|Y|U|S)(\+{0,2})$", re.I)


def shape(text):
    """what the operand text says, as far as the README grammar defines it; None = not a shape of the grammar"""
    if text == "":
        return ("inh",)
    if text.startswith("#"):
        return ("imm", text[1:])
    ind = False
    body = text
    if text.startswith("["):
        if not text.endswith("]"):
            return None
        ind = True
        body = text[1:-1]
    if "," not in body:
        if ind:
            return ("extind", body)
        if body.upper() in ("X", "Y", "U", "S"):
            return ("idx", body.upper(), "off", "", False)
        force = ""
        if body[:1] in "<>":
            force = body[0]
            body = body[1:]
        return ("mem", body, force)
    if body.count(",") != 1:
        return None
    if body[:1] in "<>":
        body = body[1:]      # EDTASM offset-size hint: same offset, any width is interchangeable
    left, right = body.split(",")
    if right.upper() in ("PCR", "PC"):
        return ("idx", None, "pcr", left, ind)
    m = _RIGHT.match(right)
    if not m:
        return None
    dec, reg, inc = m.group(1), m.group(2).upper(), m.group(3)
    if dec and inc:
        return None
    if dec or inc:
        if left != "":
            return None
        variant = {"+": "inc1", "++": "inc2", "-": "dec1", "--": "dec2"}[dec or inc]
        return ("idx", reg, variant, "", ind)
    if left.upper() in ("A", "B", "D"):
        return ("idx", reg, "acc:" + left.upper(), "", ind)
    return ("idx", reg, "off", left, ind)


def check_semantics(mn, text, insn):
    """None if the decoded instruction says what the operand text says; else a reason"""
    nf = insn.nf
    kind = nf[0]
    if kind == "rel":
        return None
    if kind == "stk":
        own = "S" if insn.kind == "stkS" else "U"
        regs = set()
        for tok in text.split(","):
            t = tok.upper()
            if t not in A.STACK_REGS_ALL or t == own:
                return "register list names [{}] which is not a register this instruction can stack".format(tok)
            regs |= {"A", "B"} if t == "D" else {t}
        return None if regs == set(nf[1]) else "mask {} does not match registers written".format(sorted(nf[1]))
    if kind == "pair":
        toks = [t.upper() for t in text.split(",")]
        return None if toks == [nf[1], nf[2]] else "register pair {}/{} is not what is written".format(nf[1], nf[2])
    sh = shape(text)
    if sh is None:
        return "operand text is not a form of the grammar but was encoded as {}".format(nf)
    if kind == "inh":
        return None if sh[0] == "inh" else "operand ignored by an inherent instruction"
    if kind == "imm":
        if sh[0] != "imm":
            return "encoded as immediate although no # is written"
        v = parse_literal(sh[1])
        if v is not None:
            w = nf[2]
            if not (-(1 << (8 * w - 1)) <= v < (1 << (8 * w))):
                return "immediate {} does not fit {} byte(s) but was accepted".format(v, w)
            if v % (1 << (8 * w)) != nf[1]:
                return "immediate {} encoded as {}".format(v, nf[1])
        return None
    if kind == "mem":
        if sh[0] != "mem":
            return "encoded as direct/extended although the text is of shape {}".format(sh[0])
        if sh[2] == "<" and nf[2] != "dir":
            return "< prefix not honoured"
        if sh[2] == ">" and nf[2] != "ext":
            return "> prefix not honoured"
        v = parse_literal(sh[1])
        if v is not None:
            if not -32768 <= v <= 65535:
                return "address {} outside 16 bits accepted".format(v)
            if nf[2] == "dir" and v % 65536 > 255:
                return "address {} does not fit a direct operand".format(v)
            if v % 65536 != nf[1]:
                return "address {} encoded as {}".format(v, nf[1])
        return None
    # indexed family
    if sh[0] == "extind":
        if nf[2] != "extind":
            return "[address] encoded as {}".format(nf)
        v = parse_literal(sh[1])
        if v is not None and (not -32768 <= v <= 65535 or v % 65536 != nf[3]):
            return "[{}] encoded as {}".format(v, nf[3])
        return None
    if sh[0] != "idx":
        return "encoded as indexed although the text is of shape {}".format(sh[0])
    _, reg, variant, left, ind = sh
    if nf[2] == "extind":
        return "encoded as extended indirect although a register is written"
    if reg != nf[1] or ind != nf[4]:
        return "register/indirection written ({}, {}) but encoded ({}, {})".format(reg, ind, nf[1], nf[4])
    if variant != nf[2]:
        return "index variant written {} but encoded {}".format(variant, nf[2])
    if variant in ("off", "pcr") and left != "":
        v = parse_literal(left)
        if v is not None:
            if not -32768 <= v <= 65535:
                return "offset {} outside 16 bits accepted".format(v)
            if v % 65536 != nf[3]:
                return "offset {} encoded as {}".format(v, nf[3])
    if variant == "off" and left == "" and nf[3] != 0:
        return "no offset written but {} encoded".format(nf[3])
    return None


# ---------------------------------------------------------------- class (i): invalid by construction

def invalid_operands(mn):
    """(operand text, must) pairs: must = 'diag' (has to be rejected)"""
    kinds = R.MODES[R.canon(mn)]
    out = []
    w = A.imm_width(mn)
    if w == 1:
        out += ["#256", "#257", "#300", "#1000", "#65535", "#-129", "#-200", "#-32768", "#$100", "#$0100", "#$FFFF",
                "#%0000000100000000"]
    if w:
        out += ["#65536", "#70000", "#-32769", "#-40000", "#$10000"]
        out += ["#65535+1", "#0-40000", "#256*256", "#0-32769"]       # the same out-of-range values as expressions of two constants
    if w == 1:
        out += ["#200+100", "#0-200", "#16*16", "#0-129"]
    if w == 2:
        out += ["#-32769"]
    if not w:
        out += ["#1", "#$10", "#-1"]                       # no immediate mode
    if "dir" in kinds:
        out += ["<$1234", "<256", "<$0100", "<65535", "70000", "65536", ">70000", "$10000"]
        out += ["<255+1", "<128*2", "65535+1", ">65535+1", "256*256"]
    else:
        out += ["$10", "$1234", "<$10", ">$1234", "100"] if "inh" not in kinds and "rel8" not in kinds and "rel16" not in kinds else []
    if "idx" in kinds:
        out += ["[70000]", "[65536]", "65536,X", "70000,Y", "-32769,U", "[65536,S]", "70000,PCR", "-32769,PCR",
                "5,Z", ",Z", ",W", "1,Q", ",", "5,", "[,Z]", "[5,W]", "A,Z", "B,W", "D,Q", "E,X", "W,X",
                "[,X+]", "[,-X]", "[,Y+]", "[,-S]", ",X+++", ",---X", ",-X+", "1,X+", "1,-X", "1,X++", "A,X+", "[A,--X]",
                ",XY", "5,XY", ",XS", "1,YU", ",PCRX", "5,XPCR", "[,X", ",X]", "[[,X]]", ",X,Y", "1,2,X",
                "CC,X", "DP,X", "PC,X", "X,X", "S,Y"]
        out += ["[65535+1]", "65535+1,X", "0-40000,X", "0-32769,Y", "[0-40000,U]", "[100-33000,X]", "0-65535,U", "65535+1,PCR", "0-32769,PCR",
                "256*256,S", "[0-32769,PCR]"]
    else:
        out += [",X", "5,X", "[,X]", "A,X", ",X+", "5,PCR", "[$1000]"] if "stkS" not in kinds and "stkU" not in kinds and "pair" not in kinds else []
    if "inh" in kinds:
        out += ["5", "X", "#1", ",X", "A", "$1000"]
    else:
        out += [""]                                        # operand required
    if "stkS" in kinds or "stkU" in kinds:
        own = "S" if "stkS" in kinds else "U"
        other = "U" if own == "S" else "S"
        out += [own + "," + other, other + "," + own, "X," + other + ",Y," + own, "CC," + own + "," + other, "D," + other + "," + own + ",PC",
                own + "," + own, "A,B,X,Y," + own + ",PC"]      # the own stack pointer among others, with the other one present
        out += [own, "A," + own, own + ",B", "Q", "A,Q", "Z,B", "A,,B", ",A", "A,", "W", "AB", "A B", "X,Y,Z", "PCR", "E", "F", "V", "MD", "a,b"]
    if "pair" in kinds:
        out += ["A,X", "X,A", "D,B", "CC,Y", "DP,PC", "A", "A,B,CC", "X,Q", "Z,A", "Q,Q", ",", "A,", ",B", "X,,Y", "W,V", "E,F", "PCR,X", "0,1"]
    seen = set()
    res = []
    for t in out:
        if t not in seen:
            seen.add(t)
            res.append(t)
    return res


# ---------------------------------------------------------------- base valid operands for mutation

def _valid_operands():
    seen = set()
    out = []
    for mn in ("LDA", "LDX", "LEAX", "JMP", "PSHS", "PULU", "TFR", "ANDCC"):
        for base in c01.forms_of(mn):
            if c01.has_value(base):
                lo, hi = c01.domain(base)
                for v in (0, 5, 16, 127, 128, 255, 256, 4660, 65535, -1, -16, -17, -128, -129, -32768):
                    if lo <= v <= hi:
                        for tag, text in A.spellings(v)[:4]:
                            t = A.operand_text(base, text)
                            if t not in seen:
                                seen.add(t)
                                out.append(t)
            elif base["form"] not in ("inh", "branch"):
                if base["form"] == "reglist" and len(base["regs"]) > 3:
                    continue
                t = A.operand_text(base, None)
                if t not in seen:
                    seen.add(t)
                    out.append(t)
    return out


VALID = _valid_operands()
_BASE120 = VALID[::max(1, len(VALID) // 120)][:120]
MUT_MNEMONICS = ["LDA", "LDX", "LDY", "STA", "LEAX", "JMP", "CLR", "CMPD", "PSHS", "PULU", "TFR", "ANDCC"]


LABEL_OPERANDS = ["ZZEND", "ZZEND+1", "ZZEND-1", "ZZEND+2", "1+ZZEND", "ZZSELF+2", "ZZSELF-1", "ZZEND*2", "ZZEND-ZZSELF", "#ZZEND", "<ZZEND", ">ZZEND", "[ZZEND]", "[ZZEND+2]", "ZZEND,X", "[ZZEND,Y]",
                  "ZZEND,PCR", "[ZZEND,PCR]", "ZZEND+3,PCR", "ZZEND-3,PCR", "ZZSELF", "ZZSELF,PCR", "#ZZSELF"]


_PAIR_FORMS = [(mn, op) for mn in ("LDA", "LDX", "JMP", "STA")
               for op in ("ZZL", "<ZZL", ">ZZL", "#ZZL", "[ZZL]", "ZZL,X", "[ZZL,Y]", "ZZL+1", "ZZL,PCR")
               if not (op == "#ZZL" and mn in ("JMP", "STA"))]


def enumerated(tier, seed):
    for mn in R.MNEMONICS:
        for text in invalid_operands(mn):
            yield dict(mn=mn, op=text, cls="invalid_by_construction")
        for text in LABEL_OPERANDS:      # operands that name the sentinel label or the statement's own label
            yield dict(mn=mn, op=text, cls="label_operand")
    # the same statement followed by further label,PCR statements and a gap that puts its displacement near the
    # 8-bit limit: its size is decided together with theirs
    for mn in ("LDA", "LEAX", "STA", "LDY", "CMPD", "JMP"):
        for text in ("ZZEND,PCR", "[ZZEND,PCR]", "ZZEND+2,PCR"):
            for k in (1, 2, 3):
                for gap in range(108, 128):
                    yield dict(mn=mn, op=text, cls="label_operand", ctx=dict(k=k, gap=gap))
    # two statements naming the same label (below and above $100) at every pair of operand forms: the width of
    # one use must not leak into the other
    for org in (0x0010, 0x00F0, 0x1000):
        for a in _PAIR_FORMS:
            for b in _PAIR_FORMS:
                yield dict(mn=a[0], op=a[1], cls="pair", pair=dict(org=org, mn2=b[0], op2=b[1]))
    # the same operands in lower and mixed case: accepted or not is the tool's choice, but an accepted one must mean
    # what its upper-case spelling means
    for mn in MUT_MNEMONICS:
        for base in VALID:
            if base.lower() != base:
                yield dict(mn=mn, op=base.lower(), cls="lowercase")
                mixed = "".join(c.lower() if i % 2 else c for i, c in enumerate(base))
                if mixed not in (base, base.lower()):
                    yield dict(mn=mn, op=mixed, cls="lowercase")
    for mn in MUT_MNEMONICS:
        for base in _BASE120:
            for i in range(len(base)):
                yield dict(mn=mn, op=base[:i] + base[i + 1:], cls="mutation")
                yield dict(mn=mn, op=base[:i] + base[i] + base[i:], cls="mutation")


def _mutate(base, kind, pos, ch, pos2, ch2, twice):
    def one(s, kind, pos, ch):
        if not s:
            return ch
        p = pos % len(s)
        if kind == 0:
            return s[:p] + s[p + 1:]
        if kind == 1:
            return s[:p] + s[p] + s[p:]
        if kind == 2:
            q = (p + 1) % len(s)
            lst = list(s)
            lst[p], lst[q] = lst[q], lst[p]
            return "".join(lst)
        if kind == 3:
            return s[:p] + ch + s[p + 1:]
        if kind == 4:
            return s[:p] + ch + s[p:]
        if kind == 5:
            return "[" + s + "]"
        return s + ch
    out = one(base, kind, pos, ch)
    if twice:
        out = one(out, (kind + 3) % 7, pos2, ch2)
    return out[:24]


_chars = st.sampled_from(ALPHABET)
_mut_operand = st.builds(_mutate, st.sampled_from(VALID), st.integers(0, 6), st.integers(0, 30), _chars,
                         st.integers(0, 30), _chars, st.booleans())
_all_mn = st.sampled_from(R.MNEMONICS)
_rep_mn = st.sampled_from(REP_MNEMONICS)
_mn = st.one_of(_rep_mn, _rep_mn, _all_mn)
_mutation = st.builds(lambda mn, op: dict(mn=mn, op=op, cls="mutation"), _mn, _mut_operand)
_random = st.builds(lambda mn, op: dict(mn=mn, op=op, cls="random"), _mn, st.text(alphabet=ALPHABET, min_size=0, max_size=16))


def searches(tier):
    n = 40000 if tier == "quick" else 1500000
    return [("mutation", _mutation, n), ("random", _random, n)]


def build(case):
    if case.get("pair"):
        pr = case["pair"]
        return [A.line("", "ORG", "$%04X" % pr["org"]), A.line("ZZL", "NOP"), A.line("", case["mn"], case["op"]),
                A.line("", pr["mn2"], pr["op2"]), A.line("ZZEND", "NOP")]
    lines = [A.line("", "ORG", "$1000"), A.line("ZZSELF" if "ZZSELF" in case["op"] else "", case["mn"], case["op"])]
    ctx = case.get("ctx")
    if ctx:
        lines += [A.line("", "LDB", "ZZEND,PCR") for _ in range(ctx["k"])] + [A.line("", "RMB", str(ctx["gap"]))]
    return lines + [A.line("ZZEND", "NOP")]


def render(case):
    return dict(case=case, source=[l.rstrip("\n") for l in build(case)])


def _judge_pair(case, out, labels, fid):
    pr = case["pair"]
    if len(out.rows) != 5 or any(r[0] is None for r in out.rows[1:]):
        return viol("listing rows unreadable: {}".format([r[2] for r in out.rows]), fid=fid + "listing", labels=labels)
    img = out.image
    base = out.rows[1][0]
    for idx, (mn, text) in ((2, (case["mn"], case["op"])), (3, (pr["mn2"], pr["op2"]))):
        at = out.rows[idx][0] - base
        reserved = out.rows[idx + 1][0] - out.rows[idx][0]
        insn = R.decode(img, at) if 0 <= at < len(img) else None
        if insn is None or insn.length != reserved or insn.op != R.canon(mn):
            return viol("{} {} (beside {} {}, label at ${:04X}): bytes {} decode as {} but the listing reserves {}".format(
                mn, text, *((pr["mn2"], pr["op2"]) if idx == 2 else (case["mn"], case["op"])), base,
                img[at:at + max(reserved, 1) + 1].hex(), insn, reserved), fid=fid + "size", labels=labels)
    if len(img) != out.rows[4][0] - base + 1 or img[-1:] != b"\x12":
        return viol("image of {} bytes does not end with the sentinel at the listed address".format(len(img)),
                    fid=fid + "layout", labels=labels)
    return ok(labels=labels, nontrivial=True)


def execute(case):
    mn, text, cls = case["mn"], case["op"], case["cls"]
    labels = ["class:" + cls]
    if any(c.isspace() or c == ";" for c in text):
        return skip("operand text contains white space or ';' (would end the operand field)", labels=labels)
    out = driver.assemble(build(case))
    if out.kind in ("CRASH", "HANG"):
        return skip("crash/hang: judged by C13", labels=labels + ["outcome:" + out.kind])
    if out.kind == "DIAG":
        return ok(labels=labels + ["rejected"], nontrivial=(cls == "invalid_by_construction"))
    labels.append("accepted")
    fid = "C12:{}:".format(cls)
    if cls == "invalid_by_construction":
        return viol("{} {} must be rejected but was accepted as {}".format(mn, text, out.image.hex()),
                    fid=fid + "accepted-invalid", labels=labels)
    if case.get("pair"):
        return _judge_pair(case, out, labels, fid)
    img = out.image
    ctx = case.get("ctx")
    want_rows = 3 + (ctx["k"] + 1 if ctx else 0)
    if len(out.rows) != want_rows or out.rows[1][0] is None or out.rows[2][0] is None:
        return viol("listing rows unreadable: {}".format([r[2] for r in out.rows]), fid=fid + "listing", labels=labels)
    if img[-1:] != b"\x12":
        return viol("sentinel NOP missing from image {}".format(img.hex()), fid=fid + "layout", labels=labels)
    img = img[:-1]
    reserved = (out.rows[2][0] - out.rows[1][0]) % 65536
    if ctx:
        # the statement under test is followed by other statements: its bytes are the first `reserved` ones, and the
        # following statements must decode in step up to the gap
        insn = R.decode(img, 0)
        if insn is None or insn.length != reserved:
            return viol("{} {} (followed by {} label,PCR statements and RMB {}): bytes {} decode as {} but the listing reserves {}".format(
                mn, text, ctx["k"], ctx["gap"], img[:6].hex(), insn, reserved), fid=fid + "size", labels=labels)
        pos = insn.length
        for j in range(ctx["k"]):
            nxt = R.decode(img, pos)
            want = (out.rows[3 + j][0] - out.rows[2 + j][0]) % 65536
            if nxt is None or nxt.op != "LDB" or nxt.length != want:
                return viol("{} {}: following statement {} decodes as {} (listing reserves {})".format(mn, text, j, nxt, want),
                            fid=fid + "size", labels=labels)
            pos += nxt.length
        img = img[:insn.length]
    if reserved != len(img):
        return viol("{} {}: {} bytes emitted ({}) but the listing reserves {}".format(mn, text, len(img), img.hex(), reserved),
                    fid=fid + "size", labels=labels)
    insn = R.decode(img, 0)
    if insn is None or insn.length != len(img):
        return viol("{} {}: bytes {} are not exactly one instruction ({})".format(mn, text, img.hex(), insn),
                    fid=fid + "malformed", labels=labels)
    if insn.op != R.canon(mn):
        return viol("{} {}: bytes {} decode as {}".format(mn, text, img.hex(), insn.op), fid=fid + "wrong_op", labels=labels)
    why = check_semantics(mn, text, insn)
    if not why and insn.nf[0] == "rel":
        # a branch operand that names the sentinel / the statement's own label, with or without a constant: if the tool
        # accepts it, the displacement must reach exactly that address (ZZEND is the next statement: d = constant)
        m = re.match(r"^(ZZEND|ZZSELF)(?:([+-])(\d+))?$", text) or re.match(r"^()(?:()(\d+))\+(ZZEND|ZZSELF)$", text)
        if m:
            name = m.group(1) or m.group(4)
            k = int(m.group(3) or 0) * (-1 if m.group(2) == "-" else 1)
            want_d = k if name == "ZZEND" else k - insn.length
            got_d = insn.nf[1]
            if got_d != want_d:
                why = "branch displacement {} does not reach {} (expected {})".format(got_d, text, want_d)
    if why:
        return viol("{} {} -> {}: {}".format(mn, text, img.hex(), why), fid=fid + "meaning:" + why[:24], labels=labels)
    return ok(labels=labels, nontrivial=True)
