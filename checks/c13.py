"""C13 - assembly always terminates with output or a source-level diagnostic."""
import os

from hypothesis import strategies as st

from vlib import asmmodel as A
from vlib import driver, proggen
from vlib import ref6809 as R
from vlib.harness import ok, viol
from checks import c03, c12

PID = "C13"
RULE = ("API level (fresh Program per case, no-progress detector on the size loop + 20 s watchdog): (1) generated valid "
        "programs; (2) one- or two-edit mutations of their lines (delete/duplicate/empty a field, unterminated string, "
        "stray punctuation, character insert/delete, operand swapped in from another line, last line without newline); "
        "(3) programs of 1-8 lines assembled from token pools (real and junk mnemonics incl. every pseudo-op, "
        "labels incl. register names, operand garbage, expressions such as L0/0, L0-L1, 5/0, 70000); (4) the C03 "
        "PC-relative sweep (every distance 0..140 both directions, nested statements); (5) INCLUDE graphs in a temp "
        "directory: missing file, self-include, 2-/3-cycles, diamonds, nesting; (6) 19 line templates x 9 characters "
        "outside printable ASCII (Latin-1, U+0100, U+20AC, beyond the BMP, DEL, a control) in strings, character "
        "literals, labels, comments and operands; (7) very long tokens, lines and programs (decimal literals of up to "
        "5000 digits in 14 operand positions, 5000-character labels, 8000-character strings, 8000-element lists, "
        "6000 statements; sizes chosen so that a case takes well under a second - building the image is quadratic in a "
        "statement's length - and run under a 120 s watchdog); (8) 12 shapes of EQU symbols defined through each other (alias and expression cycles, "
        "chains, undefined ends) x 11 uses x definition before/after use; (9) division by something that is zero "
        "only once symbols are known (7 spellings of zero x 15 positions x definition before/after); (10) 32 numeric "
        "spellings at the edges of the literal grammar (-0, 007, $00000, foreign digits, stray signs) x 19 positions. CLI level (real assembler.py "
        "processes with --to_bin/--to_cas/--to_dsk): no traceback; on a diagnostic exit status != 0 and no output "
        "file created. Oracle: outcome is OK or a Parse/Translation diagnostic with a message and a printable "
        "statement; never an internal exception, never a hang. Non-trivial = outcome is not OK, or the case is of "
        "class (4)/(5); distinct by case hash.")
ASSUMPTIONS = [
    "a hang is a proven repetition of the size-loop state or a 20 s watchdog (typical case: < 5 ms)",
    "crash buckets are keyed by (exception type, innermost repository frame)",
]
HEALTH = {"outcome:DIAG": 0.06, "outcome:OK": 0.06, "class:include": 120, "class:cli": 60}
FUZZ = {"target": "fuzz/fuzz_asm.py", "seconds": {"quick": 0, "thorough": 180}}
EXHAUSTIVE = {"quick": ["label,PCR sweep: 7 mnemonics x plain/indirect x k x both directions x distance 0..140",
                        "INCLUDE graph catalogue (missing, self, 2-cycle, 3-cycle, diamond, nested) at API and CLI level",
                        "19 line templates x 9 non-ASCII / control characters, alone and in context, API and CLI level"],
              "thorough": ["as quick"]}

# ---------------------------------------------------------------- token pools
PSEUDO = ["END", "ORG", "EQU", "SET", "RMB", "FCB", "FDB", "FCC", "SETDP", "INCLUDE", "NAM"]
MNEMONICS = R.MNEMONICS + PSEUDO * 4 + ["FOO", "LD", "", "X", "1"]
LABELS = ["", "", "", "", "", "", "L2", "L3", "L0", "X", "A", "PC", "@L", "1ABC", "LONGLABEL12345", "L_0", "l0"]
OPERANDS = ["", "1", "$10", "#1", "#$FFFF", "L0", "L1", "L0+1", "L0-1", "L0-L1", "L1/0", "L0/0", "5/0", "L0*2", "L0*L1",
            "2-L0", "70000", "-40000", "$10000", "%101", "'A", "'", "\"abc\"", "\"abc", "/a b/", "//", "\"", "1,2,3", "1,,2",
            ",", "L0,X", "[L0,X]", "L0,PCR", "[L0,PCR]", "[L0]", "[L0+1]", "L0+1,X", "NOSUCH", "NOSUCH,X", "<L0", ">L0",
            "#L0", "#L0-L1", "#NOSUCH", "A,B", "X,Y", "A,X", "D,PC", "256", "#256", "1,X+", "[,X+]", "E0", "E0+1", "E0/0",
            "nosuch.asm", "\"a\u0100b\"", "/\u00e9/", "'\u20ac", "L\u0100", "#'\u0100", "L0,L1", "L0,L0", "X,Y,Z", "$", "#", "<", ">", "[", "]", "[]", "[,]", "+", "-", "*", "/", "1+",
            "+1", "1+2+3", "1++2", "--1", "-", "$-1", "#-", "65535+1", "32767*2", "1/2", "0/0", "L0+70000"]

_ODD_NUMBERS = ["-0", "-00", "-000", "+0", "+5", "00", "007", "-007", "$0", "$00", "$000", "$00000", "%0", "%00000000", "-$5", "-%101", "$-5",
                "0x10", "10H", "1e3", "1_000", "١٢", "٠", "²", "1.5", "-", "--0", "-+0", "0-0", "'", "''", "'AB"]
_NUMS = [0, 1, 15, 16, 127, 128, 255, 256, 300, 4095, 4096, 32767, 32768, 65535, 65536, 70000, 99999, -1, -16, -17, -128,
         -129, -255, -256, -32768, -32769, -70000]


def _num_text(n, how):
    if how % 3 == 1 and n >= 0:
        return "$%X" % n
    if how % 3 == 2 and 0 <= n < 65536:
        return "%" + format(n, "08b" if n < 256 and how % 2 else "016b")
    return str(n)


_number = st.builds(_num_text, st.one_of(st.sampled_from(_NUMS), st.integers(-70000, 70000)), st.integers(0, 5))
_term = st.one_of(_number, _number, st.sampled_from(["L0", "L1", "E0", "NOSUCH", "X", "'A", "*"]))
_expr = st.one_of(_term, st.builds(lambda a, o, b: a + o + b, _term, st.sampled_from("+-*/"), _term))
_shaped = st.one_of(
    _expr,
    st.builds(lambda e: "#" + e, _expr),
    st.builds(lambda e, f: f + e, _expr, st.sampled_from("<>")),
    st.builds(lambda e: "[" + e + "]", _expr),
    st.builds(lambda e, r, i: ("[{},{}]" if i else "{},{}").format(e, r), _expr, st.sampled_from(["X", "Y", "U", "S", "PCR", "PC", "Z"]), st.booleans()),
    st.lists(_expr, min_size=2, max_size=5).map(",".join))
_operand = st.one_of(st.sampled_from(OPERANDS), _shaped, _shaped, c12._mut_operand,
                     st.text(alphabet=c12.ALPHABET, max_size=10))
_comment = st.sampled_from([None, None, None, "c", " ;", "x ; y", "\"", "'"])


def _mk_line(lab, mn, op, cmt, ws):
    text = lab + ["  ", "\t", " ", ""][ws % 4] + mn + (" " if op or ws % 3 else "") + op
    if cmt is not None:
        text += " ;" + cmt
    return text + "\n"


_line = st.builds(_mk_line, st.sampled_from(LABELS), st.sampled_from(MNEMONICS), _operand, _comment, st.integers(0, 11))
# characters outside ASCII: Latin-1, beyond one byte, beyond the BMP, and two controls ("all texts")
_ODD_CHARS = ["\u00e9", "\u0100", "\u20ac", "\U0001F600", "\x7f", "\x01", "\x0c", "\x85", "\u2028"]
_raw = st.text(alphabet=list("ABXL01 \t$#%<>[],+-*/'\";@.:") + _ODD_CHARS, max_size=24).map(lambda s: s + "\n")
# mostly one generated line in a valid context: a second bad line would only be shadowed by the first diagnostic
_token_program = st.one_of(st.lists(_line, min_size=1, max_size=1), st.lists(_line, min_size=1, max_size=1),
                           st.lists(st.one_of(_line, _line, _line, _raw), min_size=1, max_size=8))
_equ_tail = st.sampled_from([[], ["E0 EQU 5\n"], ["E0 EQU -1\n"], ["E0 EQU L0+1\n"], ["E0 EQU E0\n"], ["E0 EQU 0\n"],
                             ["E0 EQU E1\n", "E1 EQU E0\n"], ["E0 EQU E1+1\n", "E1 EQU 2\n"], ["E1 EQU E0\n", "E0 EQU E1-1\n"]])


_HEADS = [[], [" ORG $1000\n"], [" ORG $FFF0\n"], [" ORG $FFFF\n"], [" ORG $FFFE\n"], [" ORG 0\n"], [" ORG 70000\n"], [" ORG L1\n"]]
_DEFS = [[], ["L0 NOP \n"], ["L0 NOP \n", "L1 RMB 3\n"], ["L0 RMB 300\n", "L1 NOP \n"], ["L1 FCB 1,2\n", "L0 FDB 3\n"]]


def _tok_case(lines, tail, strip_last, head, defs, defs_first):
    lines = list(lines)
    lines = list(head) + (list(defs) + lines if defs_first else lines + list(defs)) + list(tail)
    if strip_last and lines:
        lines[-1] = lines[-1].rstrip("\n")
    return dict(kind="lines", cls="tokens", lines=lines)


_tokens = st.builds(_tok_case, _token_program, _equ_tail, st.sampled_from([False, False, False, True]),
                    st.sampled_from(_HEADS), st.sampled_from(_DEFS + _DEFS[1:]), st.booleans())


def _mutate_lines(prog, which, op, pos, ch, other, twice, op2, pos2):
    lines = proggen.render(prog)

    def one(lines, which, op, pos, ch, other):
        i = which % len(lines)
        line = lines[i].rstrip("\n")
        parts = line.split(" ")
        if op == 0 and len(parts) >= 3:          # empty operand
            line = " ".join(parts[:2]) + " "
        elif op == 1 and len(parts) >= 2:        # delete mnemonic
            line = " ".join(parts[:1] + parts[2:])
        elif op == 2 and len(parts) >= 3:        # duplicate operand
            line = line + "," + parts[-1]
        elif op == 3:                            # drop last character (closing delimiter / bracket)
            line = line[:-1]
        elif op == 4:                            # stray punctuation at the end
            line = line + ch
        elif op == 5 and len(parts) >= 3:        # operand from another line
            o = lines[other % len(lines)].rstrip("\n").split(" ")
            line = " ".join(parts[:2] + o[2:3])
        elif op == 6 and line:                   # delete a character
            p = pos % len(line)
            line = line[:p] + line[p + 1:]
        elif op == 7:                            # insert a character
            p = pos % (len(line) + 1)
            line = line[:p] + ch + line[p:]
        elif op == 8:                            # duplicate the line (label redefinition etc.)
            return lines[:i] + [lines[i]] + lines[i:]
        elif op == 9:                            # delete the line (dangling references)
            return lines[:i] + lines[i + 1:] or [" NOP \n"]
        elif op == 10:                           # last line without newline
            return lines[:-1] + [lines[-1].rstrip("\n")]
        return lines[:i] + [line + "\n"] + lines[i + 1:]

    out = one(lines, which, op, pos, ch, other)
    if twice:
        out = one(out, which + pos2, op2, pos2, ch, other + 1)
    return dict(kind="lines", cls="mutation", lines=out)


_mutation = st.builds(_mutate_lines, proggen.small_program, st.integers(0, 40), st.integers(0, 10), st.integers(0, 60),
                      st.sampled_from(list(",;\"'[]#$+-*/<>@.:xX1 ") + _ODD_CHARS), st.integers(0, 40), st.booleans(),
                      st.integers(0, 10), st.integers(0, 60))
_valid = st.builds(lambda p: dict(kind="lines", cls="valid", lines=proggen.render(p)), proggen.program)

# ---------------------------------------------------------------- include graphs
_BODY = [" NOP \n", "LA LDA #1\n", " BRA LA\n"]


def include_catalogue():
    yield dict(kind="include", cls="include", main="main.asm", files={"main.asm": [" ORG $1000\n", " INCLUDE nosuch.asm\n", " NOP \n"]})
    yield dict(kind="include", cls="include", main="main.asm", files={"main.asm": [" INCLUDE main.asm\n"]})
    yield dict(kind="include", cls="include", main="main.asm",
               files={"main.asm": [" NOP \n", " INCLUDE a.asm\n"], "a.asm": [" INCLUDE a.asm\n"]})
    yield dict(kind="include", cls="include", main="main.asm",
               files={"main.asm": [" INCLUDE a.asm\n"], "a.asm": [" NOP \n", " INCLUDE b.asm\n"], "b.asm": [" INCLUDE a.asm\n"]})
    yield dict(kind="include", cls="include", main="main.asm",
               files={"main.asm": [" INCLUDE a.asm\n"], "a.asm": [" INCLUDE b.asm\n"], "b.asm": [" INCLUDE c.asm\n"],
                      "c.asm": [" INCLUDE a.asm\n"]})
    yield dict(kind="include", cls="include", main="main.asm",
               files={"main.asm": [" INCLUDE a.asm\n", " INCLUDE b.asm\n"], "a.asm": [" INCLUDE c.asm\n"],
                      "b.asm": [" INCLUDE c.asm\n"], "c.asm": [" NOP \n"]})
    yield dict(kind="include", cls="include", main="main.asm",
               files={"main.asm": [" ORG $2000\n", " INCLUDE a.asm\n", " RTS \n"], "a.asm": ["LA LDA #1\n", " INCLUDE b.asm\n"],
                      "b.asm": [" BRA LA\n"]})
    yield dict(kind="include", cls="include", main="main.asm", files={"main.asm": [" INCLUDE \n"]})
    yield dict(kind="include", cls="include", main="main.asm", files={"main.asm": [" INCLUDE a.asm\n"], "a.asm": ["LA FOO 1\n"]})
    yield dict(kind="include", cls="include", main="main.asm", files={"main.asm": [" INCLUDE a.asm\n"], "a.asm": []})
    yield dict(kind="include", cls="include", main="main.asm", files={"main.asm": [" INCLUDE sub/a.asm\n"], "sub/a.asm": [" NOP \n"]})
    # the operand names something that exists but is not a readable regular file, or cannot be a file name at all
    for operand in (".", "..", "/", "sub", "sub/", "sub/a.asm/x.asm", "x" * 300, "sub/" * 200 + "a.asm", "\x01", "a.asm\x00b"):
        yield dict(kind="include", cls="include", main="main.asm",
                   files={"main.asm": [" NOP \n", " INCLUDE {}\n".format(operand)], "sub/a.asm": [" NOP \n"]})
    yield dict(kind="include", cls="include", main="main.asm", files={"main.asm": [" INCLUDE ./a.asm\n"], "a.asm": [" INCLUDE ./a.asm\n"]})
    yield dict(kind="include", cls="include", main="main.asm",
               files={"main.asm": [" INCLUDE a.asm\n"], "a.asm": [" INCLUDE sub/../b.asm\n"], "b.asm": [" INCLUDE ./a.asm\n"], "sub/x.asm": []})


_names = ["main.asm", "a.asm", "b.asm", "c.asm"]


def _mk_graph(edges, missing, bodies):
    files = {}
    for i, name in enumerate(_names):
        lines = [_BODY[bodies[i] % 3].replace("LA", "LA%d" % i)]
        for (src, dst) in edges:
            if src == i:
                lines.append(" INCLUDE {}\n".format(_names[dst] if not (missing and dst == 3) else "gone.asm"))
        files[name] = lines
    return dict(kind="include", cls="include", main="main.asm", files=files)


_graph = st.builds(_mk_graph, st.lists(st.tuples(st.integers(0, 3), st.integers(0, 3)), min_size=1, max_size=5),
                   st.booleans(), st.tuples(*([st.integers(0, 2)] * 4)))
_cli_switches = st.sampled_from([["--to_bin", "o.bin"], ["--to_cas", "o.cas"], ["--to_dsk", "o.dsk"],
                                 ["--to_bin", "o.bin", "--to_cas", "o.cas", "--to_dsk", "o.dsk"], ["--print", "--symbols"]])
_cli = st.one_of(
    st.builds(lambda c, sw: dict(c, kind="cli", cls="cli", switches=sw), st.one_of(_tokens, _mutation), _cli_switches),
    st.builds(lambda c, sw: dict(c, kind="cli_include", cls="cli", switches=sw), _graph, _cli_switches))


_ODD_TEMPLATES = [' FCC "a{c}b"\n', " FCC /{c}/\n", " FCC {c}ab{c}\n", ' FCC "ab" ; {c}\n', " FCB '{c}\n", " LDA #'{c}\n",
                  "L{c} NOP \n", " LDA #1 ; {c}\n", " NAM {c}\n", " FCB 1,{c}\n", " LDA {c},X\n", " {c}\n", "{c}\n",
                  " INCLUDE {c}.asm\n", "E{c} EQU 5\n", " LDA #$1{c}\n", " ORG {c}\n", " RMB {c}\n", " FDB \"{c}\"\n"]


def odd_character_cases():
    """every template x every character outside printable ASCII, alone and inside a valid program, API and CLI"""
    for tpl in _ODD_TEMPLATES:
        for ch in _ODD_CHARS:
            line = tpl.format(c=ch)
            yield dict(kind="lines", cls="odd_chars", lines=[line])
            yield dict(kind="lines", cls="odd_chars", lines=[" ORG $1000\n", "L0 NOP \n", line, " BRA L0\n"])
            if ch not in ("\x01",):
                yield dict(kind="cli", cls="cli", lines=[" ORG $1000\n", "L0 NOP \n", line, " RTS \n"],
                           switches=["--to_bin", "o.bin", "--to_cas", "o.cas"])


_EQU_SHAPES = [["E0 EQU E0\n"], ["E0 EQU E1\n", "E1 EQU E0\n"], ["E0 EQU E1\n", "E1 EQU E2\n", "E2 EQU E0\n"],
               ["E0 EQU E1+1\n", "E1 EQU E0+1\n"], ["E0 EQU E1\n", "E1 EQU E0+1\n"], ["E0 EQU E1\n", "E1 EQU E2\n", "E2 EQU 5\n"],
               ["E0 EQU E1\n", "E1 EQU L0\n"], ["E0 EQU L0-E0\n"], ["E0 EQU E1*2\n", "E1 EQU E2-1\n", "E2 EQU E0\n"],
               ["E0 EQU NOSUCH\n"], ["E0 EQU E1\n"], ["E0 EQU E1\n", "E1 EQU E2\n", "E2 EQU E3\n", "E3 EQU E1\n"]]
_EQU_USES = [None, " LDA E0\n", " LDA #E0\n", " LDX #E1+1\n", " FCB E0\n", " FDB E0,1\n", " LDA E0,X\n", " JMP [E0]\n", " RMB E0\n",
             " LDA E0,PCR\n", " BRA E0\n"]


def equ_cycle_cases():
    """symbols defined through each other: cycles of aliases and of expressions, chains, undefined ends; unused or
    used in every operand position, definitions before or after the use"""
    for shape in _EQU_SHAPES:
        for use in _EQU_USES:
            body = ["L0 NOP \n"] + ([use] if use else [])
            yield dict(kind="lines", cls="equ_cycle", lines=[" ORG $1000\n"] + shape + body)
            yield dict(kind="lines", cls="equ_cycle", lines=[" ORG $1000\n"] + body + list(reversed(shape)))
        yield dict(kind="cli", cls="cli", lines=[" ORG $1000\n"] + shape + ["L0 NOP \n", " LDA #E0\n"], switches=["--to_bin", "o.bin"])


def zero_divisor_cases():
    """a divisor that is zero only once symbols are resolved: literal, EQU (before / after use), label difference"""
    zeros = [("0", []), ("E0", ["E0 EQU 0\n"]), ("E0", ["E0 EQU 5-5\n"]), ("E0", ["E0 EQU L0-L0\n"]), ("E0", ["E0 EQU E1\n", "E1 EQU 0\n"]),
             ("L0-L0", []), ("NOSUCH", [])]
    uses = [" LDA #5/{z}\n", " LDX #L0/{z}\n", " LDA 5/{z}\n", " LDA L0/{z},X\n", " JMP [5/{z}]\n", " LDA 5/{z},PCR\n", " FCB 5/{z}\n",
            " FDB 1,L0/{z}\n", " RMB 5/{z}\n", " ORG 5/{z}\n", "E2 EQU 5/{z}\n", "E2 EQU L0/{z}\n", " LDA #{z}/{z}\n", " SETDP 5/{z}\n",
            " END L0/{z}\n"]
    for z, defs in zeros:
        for use in uses:
            line = use.format(z=z)
            tail = [" LDA #E2\n"] if line.startswith("E2") else []
            yield dict(kind="lines", cls="zero_divisor", lines=[" ORG $1000\n"] + defs + ["L0 NOP \n", line] + tail)
            yield dict(kind="lines", cls="zero_divisor", lines=[" ORG $1000\n", "L0 NOP \n", line] + tail + defs)
        yield dict(kind="cli", cls="cli", lines=[" ORG $1000\n", "L0 NOP \n", " LDA #5/{}\n".format(z)] + defs, switches=["--to_bin", "o.bin"])


def odd_number_cases():
    """numeric spellings at the edges of the literal grammar (negative zero, leading zeros, foreign digits, stray signs)
    in every operand position"""
    positions = [" LDA #{n}\n", " LDX #{n}\n", " LDA {n}\n", " LDA <{n}\n", " LDA {n},X\n", " LDA [{n},Y]\n", " JMP [{n}]\n", " LDA {n},PCR\n", " BRA {n}\n",
                 " FCB {n}\n", " FCB 1,{n},2\n", " FDB {n}\n", " RMB {n}\n", " ORG {n}\n", "E0 EQU {n}\n", " LDA #1+{n}\n", " LDA #{n}-1\n", " SETDP {n}\n",
                 " END {n}\n"]
    for num in _ODD_NUMBERS:
        for pos in positions:
            line = pos.format(n=num)
            yield dict(kind="lines", cls="odd_number", lines=[" ORG $1000\n", "L0 NOP \n", line] + ([" LDA #E0\n"] if line.startswith("E0") else []))
        yield dict(kind="cli", cls="cli", lines=[" ORG $1000\n", " LDB #{}\n".format(num), " FCB 1,{}\n".format(num)], switches=["--to_bin", "o.bin"])


def long_input_cases():
    """very long tokens, lines and programs (a decimal literal beyond 4300 digits trips the interpreter's own limit)"""
    for digits in (6, 40, 4300, 4301, 5000):
        for ch in "190":
            num = ch * digits if ch != "0" else "0" * digits + "7"       # also: mostly leading zeros
            for tpl in (" LDA #{n}\n", " LDX #-{n}\n", " FDB {n}\n", " FCB 1,{n}\n", " LDA {n},X\n", "E0 EQU {n}\n", " RMB {n}\n",
                        " ORG {n}\n", " LDA #1+{n}\n", " LDA #${n}\n", " LDA #%{n}\n", " JMP [{n}]\n", " LDA {n},PCR\n", " BRA {n}\n"):
                yield dict(kind="lines", cls="long_input", lines=[tpl.format(n=num)])
    yield dict(kind="lines", cls="long_input", lines=[" LDA #1" + " " * 20000 + "\n"])
    yield dict(kind="lines", cls="long_input", lines=["L" * 5000 + " NOP \n", " JMP " + "L" * 5000 + "\n"])
    yield dict(kind="lines", cls="long_input", lines=[" NOP ;" + "c" * 30000 + "\n"])
    yield dict(kind="lines", cls="long_input", lines=[" FCC /" + "A" * 8000 + "/\n"])       # building the image is quadratic in the string length: 70000 would take ~20 s
    yield dict(kind="lines", cls="long_input", lines=[" FCB " + ",".join(["1"] * 8000) + "\n"])
    yield dict(kind="lines", cls="long_input", lines=[" PSHS " + ",".join(["A"] * 3000) + "\n"])
    yield dict(kind="lines", cls="long_input", lines=[" LDA #1" + "+1" * 3000 + "\n"])
    yield dict(kind="lines", cls="long_input", lines=[" LDA " + "[" * 500 + "1" + "]" * 500 + "\n"])
    yield dict(kind="lines", cls="long_input", lines=[" NOP \n"] * 6000)
    yield dict(kind="lines", cls="long_input", lines=["L%d NOP \n" % i for i in range(1500)] + [" JMP L%d\n" % i for i in range(1500)])


def enumerated(tier, seed):
    yield from odd_character_cases()
    yield from long_input_cases()
    yield from equ_cycle_cases()
    yield from zero_divisor_cases()
    yield from odd_number_cases()
    for case in include_catalogue():
        yield case
        yield dict(case, kind="cli_include", cls="cli", switches=["--to_bin", "o.bin", "--to_cas", "o.cas", "--to_dsk", "o.dsk"])
    for case in c03.enumerated("quick", seed):
        if case.get("macro") or case.get("numpcr"):
            continue
        if any(i["t"] == "pcr" for i in case["items"]) and not any(i["t"] == "rmb" and i["n"] > 1000 for i in case["items"]):
            yield dict(kind="lines", cls="pcr_sweep", lines=c03.build(case))


def searches(tier):
    q = tier == "quick"
    return [("valid", _valid, 4000 if q else 60000), ("mutation", _mutation, 30000 if q else 500000),
            ("tokens", _tokens, 40000 if q else 700000), ("include_graphs", _graph, 400 if q else 10000),
            ("cli", _cli, 320 if q else 8000)]


def render(case):
    out = dict(case)
    if "lines" in out:
        out["lines"] = [l.rstrip("\n") if len(l) <= 160 else "{}... ({} characters)".format(l[:120], len(l))
                        for l in out["lines"]][:40]
    return out


def _judge_api(out, labels):
    labels.append("outcome:" + out.kind)
    if out.kind == "CRASH":
        return viol("internal error {} in {}: {}".format(out.exc, out.frame, out.message),
                    fid="C13:crash:{}@{}".format(out.exc, out.frame), labels=labels)
    if out.kind == "HANG":
        return viol("assembly does not terminate ({})".format(out.message), fid="C13:hang:" + str(out.exc), labels=labels)
    if out.kind == "DIAG":
        if not out.message or not out.message.strip():
            return viol("diagnostic without a message", fid="C13:empty-diagnostic", labels=labels)
        if out.detail is None:
            return viol("diagnostic '{}' names no statement".format(out.message), fid="C13:no-statement", labels=labels)
    return None


def execute(case):
    kind = case["kind"]
    labels = ["class:" + case["cls"]]
    special = case["cls"] in ("pcr_sweep", "include", "cli", "odd_chars", "long_input", "equ_cycle", "zero_divisor", "odd_number")
    if kind == "lines":
        out = driver.assemble(case["lines"], timeout=120.0 if case["cls"] == "long_input" else 20.0)
        bad = _judge_api(out, labels)
        return bad or ok(labels=labels, nontrivial=special or out.kind != "OK")
    if kind == "include":
        with driver.TempDir() as tmp:
            _write_files(tmp, case["files"])
            out = driver.assemble(case["files"][case["main"]], cwd=tmp)
        bad = _judge_api(out, labels)
        return bad or ok(labels=labels, nontrivial=True)
    # CLI level
    with driver.TempDir() as tmp:
        if kind == "cli_include":
            _write_files(tmp, case["files"])
            src = case["main"]
            lines = case["files"][src]
            ref = driver.assemble(lines, cwd=tmp)
        else:
            src = "prog.asm"
            lines = case["lines"]
            with open(os.path.join(tmp, src), "w", newline="") as fh:
                fh.write("".join(lines))
            ref = driver.assemble(_as_read_back(os.path.join(tmp, src)), cwd=tmp)
        before = driver.snapshot(tmp)
        res = driver.run_cli("assembler.py", [src, "--name", "PROG"] + case["switches"], cwd=tmp)
        after = driver.snapshot(tmp)
    labels.append("cli_ref:" + ref.kind)
    if res.status == "timeout":
        return viol("assembler.py did not terminate within 120 s", fid="C13:cli-hang", labels=labels)
    if "Traceback" in res.stderr:
        last = res.stderr.strip().splitlines()[-1] if res.stderr.strip() else ""
        return viol("assembler.py died with a traceback: {}".format(last), fid="C13:cli-traceback:" + last.split(":")[0],
                    labels=labels)
    new_files = sorted(set(after) - set(before))
    changed = sorted(n for n in before if after.get(n) != before[n])
    if ref.kind == "DIAG":
        if res.status == 0:
            return viol("diagnostic '{}' but exit status 0".format(ref.message), fid="C13:cli-exit0", labels=labels)
        if new_files or changed:
            return viol("diagnostic '{}' but files created/changed: {}".format(ref.message, new_files + changed),
                        fid="C13:cli-output-on-error", labels=labels)
        if (ref.message or "") not in res.stdout:
            return viol("diagnostic text '{}' not printed: {!r}".format(ref.message, res.stdout[:200]),
                        fid="C13:cli-message", labels=labels)
    elif ref.kind == "OK":
        if res.status != 0:
            return viol("program assembles in process but assembler.py exits {}: {!r}".format(res.status, res.stdout[:200]),
                        fid="C13:cli-exit-nonzero", labels=labels)
    else:
        if res.status == 0:
            return viol("in-process {} but CLI exit 0".format(ref.kind), fid="C13:cli-exit0", labels=labels)
    return ok(labels=labels, nontrivial=True)


def _write_files(tmp, files):
    for name, lines in files.items():
        path = os.path.join(tmp, name)
        os.makedirs(os.path.dirname(path), exist_ok=True)
        with open(path, "w", newline="") as fh:
            fh.write("".join(lines))


def _as_read_back(path):
    with open(path, "r") as fh:
        return fh.readlines()
