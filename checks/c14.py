"""C14 - every cassette image written is a well-formed CoCo tape stream."""
from hypothesis import strategies as st

import os

from vlib import casref, driver, filegen
from vlib.harness import ok, viol

PID = "C14"
RULE = ("Hypothesis draws lists of 0-6 files (name 0-12 printable non-space ASCII, type 0-3, data type 00/FF, "
        "any 16-bit addresses, data length from the 255-multiple boundary grid, uniform 0-4096 or up to 65535, "
        "content uniform / block-marker alphabet / constant / runs, with drawn edge bytes); plus an enumerated "
        "sweep of single files of every length 0..1100 (quick) / 0..6000 (thorough) and lengths whose image is a multiple "
        "of 4096 +- 1. Each list is written with "
        "CassetteFile.add_files and the buffer is parsed by the independent strict tape grammar; the same list saved "
        "through VirtualFile.save_virtual_file must put the same bytes into the host file, and the same file objects "
        "written to a second tape (the first of them twice) must parse again. Non-trivial = "
        "some file has >= 2 data blocks, or a length congruent 0, 1 or 254 mod 255, or length 0; distinct by the "
        "hash of the whole case.")
ASSUMPTIONS = [
    "vlib/casref.py (tape grammar written from the Color BASIC format description) is the trusted reference",
    "files are handed to the container as CoCoFile objects the way assembler.py and file_util.py build them",
]
HEALTH = {"multi_block": 0.08, "len_mod255_edge": 0.04}
EXHAUSTIVE = {"quick": ["single file of every data length 0..1100"],
              "thorough": ["single file of every data length 0..6000"]}

_case = st.fixed_dictionaries(dict(files=st.lists(filegen.cas_file(), min_size=0, max_size=6)))


def enumerated(tier, seed):
    top = 1100 if tier == "quick" else 6000
    # image lengths around multiples of 4096 (a single file of n bytes takes 539 + n + 6*ceil(n/255) bytes on tape)
    extra = [n for n in range(3440, 3500)] + [7472, 7473, 7474, 7475, 15479, 15480, 15481] if tier == "quick" else []
    for n in list(range(top + 1)) + extra:
        yield dict(files=[dict(name="F%d" % n, ftype=2, dtype=0, load=n & 0xFFFF, exec=(n * 7) & 0xFFFF,
                               data=dict(n=n, k=n, mode=n % 4, head="", tail=""))])


def searches(tier):
    return [("files", _case, 4000 if tier == "quick" else 300000)]


def render(case):
    return dict(files=[filegen.short_file(f) for f in case["files"]])


def execute(case):
    # every file of the generated lists can be stored on a tape: a writer that raises has not written the stream
    try:
        return _execute(case)
    except casref.TapeError:
        raise
    except Exception as err:
        import traceback
        frames = traceback.extract_tb(err.__traceback__)
        if frames and os.path.abspath(frames[-1].filename).startswith(os.path.abspath(driver.REPO) + os.sep):
            return viol("writing the files raised {}: {}".format(type(err).__name__, err),
                        fid="C14:raise:" + type(err).__name__, labels=[])
        raise


def _execute(case):
    from cocoasm.virtualfiles.cassette import CassetteFile
    datas = [filegen.expand(f["data"]) for f in case["files"]]
    tape = CassetteFile()
    cocos = [filegen.to_coco(f, d) for f, d in zip(case["files"], datas)]
    tape.add_files(cocos)
    buf = tape.get_buffer()
    labels = []
    nontrivial = False
    for d in datas:
        n = len(d)
        if n > 255:
            labels.append("multi_block")
        if n % 255 in (0, 1, 254):
            labels.append("len_mod255_edge")
        if n > 255 or n % 255 in (0, 1, 254):
            nontrivial = True
    labels = sorted(set(labels))
    if len(case["files"]) >= 2:
        labels.append("multi_file")
    try:
        if any((not isinstance(b, int)) or b < 0 or b > 255 for b in buf):
            return viol("buffer holds something that is not a byte", fid="C14:not-bytes", labels=labels)
        parsed = casref.parse(buf)
    except casref.TapeError as err:
        return viol("strict tape parse failed: {}".format(err), fid="C14:parse:" + err.rule[:30], labels=labels)
    if len(parsed) != len(case["files"]):
        return viol("tape holds {} files, {} were written".format(len(parsed), len(case["files"])),
                    fid="C14:count", labels=labels)
    for idx, (f, d, p) in enumerate(zip(case["files"], datas, parsed)):
        want_name = f["name"][:8].ljust(8).encode("latin-1")
        if p.name.upper() != want_name.upper():      # the letter case written is the tool's choice (README: MYPROG)
            return viol("file {}: name field {!r}, expected {!r}".format(idx, p.name, want_name),
                        fid="C14:name", labels=labels)
        for key, got, want in (("file type", p.ftype, f["ftype"]), ("data type", p.dtype, f["dtype"]),
                               ("load address", p.load, f["load"]), ("entry address", p.exec, f["exec"])):
            if got != want:
                return viol("file {}: {} {} expected {}".format(idx, key, got, want), fid="C14:" + key, labels=labels)
        if p.gap not in (0x00, 0xFF):
            return viol("file {}: gap flag ${:02X}".format(idx, p.gap), fid="C14:gapflag", labels=labels)
        if bytes(p.data) != d:
            return viol("file {}: data blocks concatenate to {} bytes, differing from the {} written".format(
                idx, len(p.data), len(d)), fid="C14:data", labels=labels)
        if any(b > 255 for b in p.blocks):
            return viol("file {}: data block longer than 255".format(idx), fid="C14:blocklen", labels=labels)
    # the image as it reaches a host file (the route the command-line tools take) is the same bytes
    from cocoasm.virtualfiles.virtual_file import VirtualFile, VirtualFileType
    from cocoasm.virtualfiles.source_file import SourceFile, SourceFileType
    with driver.TempDir() as tmp:
        path = os.path.join(tmp, "out.cas")
        vf = VirtualFile(SourceFile(path, file_type=SourceFileType.BINARY), VirtualFileType.CASSETTE)
        vf.open_virtual_file()
        for f, d in zip(case["files"], datas):
            vf.add_coco_file(filegen.to_coco(f, d))
        vf.save_virtual_file()
        written = open(path, "rb").read() if os.path.exists(path) else None
    if case["files"] and written != bytes(bytearray(buf)):
        return viol("the host file written by save_virtual_file has {} bytes, the image has {}{}".format(
            None if written is None else len(written), len(buf),
            "" if written is None or len(written) != len(buf) else " (same length, different bytes)"), fid="C14:host-file", labels=labels)
    # a file list may name the same file twice, and the same objects may be written to another tape
    if cocos:
        again = CassetteFile()
        again.add_files(cocos + cocos[:1])
        try:
            parsed = casref.parse(again.get_buffer())
        except casref.TapeError as err:
            return viol("the same file objects written to a second tape: strict tape parse failed: {}".format(err),
                        fid="C14:reused:parse", labels=labels)
        want = datas + datas[:1]
        if len(parsed) != len(want) or any(bytes(p.data) != d for p, d in zip(parsed, want)):
            return viol("the same file objects written to a second tape (the first of them twice): data blocks carry {} bytes per "
                        "file, the files have {}".format([len(p.data) for p in parsed], [len(d) for d in want]),
                        fid="C14:reused:data", labels=labels)
    return ok(labels=labels, nontrivial=nontrivial)
