"""C15 - disk space accounting is exact: files that fit are stored, others fail cleanly."""
import json
import os

from hypothesis import strategies as st

from vlib import driver, dskref, filegen
from vlib.harness import ok, skip, viol

PID = "C15"
RULE = ("memory: histories of add_file on a blank DiskFile (default or permuted fill order) drawn from three profiles - "
        "many one-granule files, few large files (up to 28 granules = 64 KiB), mixtures - continued until the accounting model "
        "says full and one step beyond. After every add: exactly n = stream_length // 2304 + 1 FAT entries changed, all "
        "from $FF, one new directory entry; a file needing more granules than are free must raise. host: the same through "
        "VirtualFile(open, add, save(append)) on a host file (absent at first, or an existing freshly formatted image), as the CLIs do; a refused add must raise and leave the host "
        "file byte-identical; later smaller files must still be accepted. Enumerated: 68 one-granule files then a 69th; "
        "three files filling exactly 68 granules and one granule more; stream lengths on both sides of every granule multiple up "
        "to 6; one file object stored five (17 granules) or 69 (one granule) times with its stream 0-6 bytes below a granule "
        "multiple - every copy must be charged what the first was. Non-trivial = the history ends within 2 granules of full or contains a refused add; distinct by case hash.")
ASSUMPTIONS = [
    "granule demand model: n = (data + header/trailer bytes) // 2304 + 1 (the property's 'minimum, or one more on an exact multiple')",
    "directory-slot exhaustion cannot be reached on a valid 35-track image (68 granules < 72 slots); it is not claimed as covered",
]
HEALTH = {"near_full": 0.12, "refused": 0.1, "mode:host": 16, "same_object_again": 20}
EXHAUSTIVE = {"quick": ["68 one-granule files + 1", "28+28+12 granules exactly full / one more", "stream lengths 2304k-1, 2304k, 2304k+1 for k=1..6 x 3 kinds"],
              "thorough": ["as quick"]}


def _sized(kind, need, slack, k):
    """file description whose stream needs exactly `need` granules"""
    over = 10 if kind in ("ml", "ml_ascii") else 3 if kind == "basic" else 0
    lo = max(0, (need - 1) * 2304 - over)
    hi = need * 2304 - over - 1
    n = max(lo, hi - slack) if slack >= 0 else lo
    n = max(lo, min(hi, n))
    # mostly plain names; a few as they come off a tape whose name field is NUL padded (the tool stores NUL as blank)
    name = {7: "AB\0\0\0\0\0\0", 8: "\0" * 8, 9: "\0X%d" % (k % 50)}.get(k % 10, "F%d" % (k % 1000))
    return dict(name=name, ext="DAT", kind=kind, ftype={"ml": 2, "basic": 0, "ascii": 1, "ml_ascii": 2}[kind],
                dtype=0xFF if kind in ("ascii", "ml_ascii") else 0, load=0x2000, exec=0x2001, data=dict(n=n, k=k, mode=2, head="", tail=""))


_kind = st.sampled_from(["ml", "basic", "ascii", "ml", "basic", "ascii", "ml_ascii"])   # ml_ascii: type 2 flagged ASCII, stored as machine language
_small = st.builds(_sized, _kind, st.just(1), st.integers(-1, 2304), st.integers(0, 10 ** 6))
_large = st.builds(_sized, _kind, st.integers(2, 28), st.integers(-1, 40), st.integers(0, 10 ** 6))
_any = st.builds(_sized, _kind, st.integers(1, 12), st.integers(-1, 2304), st.integers(0, 10 ** 6))
_history = st.one_of(st.lists(_small, min_size=60, max_size=75), st.lists(_large, min_size=2, max_size=12),
                     st.lists(st.one_of(_small, _any, _large), min_size=5, max_size=40))
def _top_up(files, cuts, last_kind, leave):
    """extend a history so that it ends exactly `leave` granules short of full, then one file too many"""
    out = []
    free = 68
    for f in files:
        need = filegen.stream_len(f) // 2304 + 1
        if need > free:
            break
        out.append(f)
        free -= need
    free -= leave
    i = 0
    while free > 0:
        need = min(free, 28, 1 + cuts[i % len(cuts)])
        out.append(_sized(["ml", "basic", "ascii"][i % 3], need, cuts[i % len(cuts)] % 7 - 1, 5000 + i))
        free -= need
        i += 1
    out.append(_sized(last_kind, leave + 1, 0, 7777))     # needs one granule more than is free
    if leave:
        out.append(_sized(last_kind, leave, -1, 7778))    # ... and this one still fits exactly
    return out


_filled = st.builds(_top_up, _history, st.lists(st.integers(0, 27), min_size=1, max_size=6), _kind, st.integers(0, 2))
_memory = st.fixed_dictionaries(dict(mode=st.just("memory"), order=filegen.fill_order, files=st.one_of(_history, _filled, _filled)))
_host = st.fixed_dictionaries(dict(mode=st.just("host"), files=st.lists(st.one_of(_large, _large, _any), min_size=3, max_size=9),
                                   blank_start=st.booleans()))


def enumerated(tier, seed):
    yield dict(mode="memory", order=None, files=[_sized("ml", 1, 5, i) for i in range(69)])
    yield dict(mode="memory", order=list(range(68)), files=[_sized("ascii", 1, -1, i) for i in range(69)])
    yield dict(mode="memory", order=None, files=[_sized("ml", 28, 0, 1), _sized("basic", 28, 0, 2), _sized("ascii", 12, 0, 3), _sized("ascii", 1, 0, 4)])
    yield dict(mode="memory", order=None, files=[_sized("ml", 28, 0, 1), _sized("basic", 28, 0, 2), _sized("ascii", 13, -1, 3), _sized("ml", 12, 0, 4)])
    for k in range(1, 7):
        for kind in ("ml", "basic", "ascii"):
            for need, slack in ((k, 0), (k + 1, -1), (k, 1)):
                yield dict(mode="memory", order=None, files=[_sized(kind, need, slack, k)] + [_sized("ascii", 28, 0, 9)] * 3)
    # ASCII files carry no 16-bit length and may be longer than 64 KiB: 29, 40 and all 68 granules
    for need in (29, 40, 68):
        yield dict(mode="memory", order=None, files=[_sized("ascii", need, 0, 1), _sized("ascii", 68 - need + 1, 0, 2), _sized("ascii", max(68 - need, 1), 0, 3)])
    # one and the same file object stored again and again (copies of a file): every copy needs what the first needed.
    # Stream lengths within 6 bytes below a granule multiple, so that a file that grew by a few bytes would need one more
    for kind in ("ml", "basic", "ascii", "ml_ascii"):
        for slack in range(0, 7):
            f = _sized(kind, 17, slack, 40 + slack)
            yield dict(mode="memory", order=None, reuse=True, files=[f, f, f, f, f])
            g = _sized(kind, 1, slack, 50 + slack)
            yield dict(mode="memory", order=list(range(67, -1, -1)), reuse=True, files=[g] * 69)
    # host route (every run re-reads the image and stores all files again): ASCII files whose length is a multiple of
    # 256 - their last sector is full - and 256 bytes short of a granule multiple, so that a file read back one sector
    # longer would need one granule more
    for g in (1, 2, 5):
        a256 = dict(_sized("ascii", g, 0, 60 + g), data=dict(n=g * 2304 - 256, k=60 + g, mode=2, head="", tail=""))
        yield dict(mode="host", files=[a256, _sized("ml", 1, 3, 1), _sized("basic", 2, 0, 2), dict(a256, name="SECOND"), _sized("ascii", 68 - 2 * g - 3, -1, 3),
                                       _sized("ml", 1, 0, 4)])
    # host route, many small files: 68 one-granule files and a 69th (every run re-reads all directory entries)
    yield dict(mode="host", files=[_sized(("ml", "basic", "ascii")[i % 3], 1, 5, i) for i in range(69)])
    yield dict(mode="host", files=[_sized("ascii", 30, 0, 1), _sized("ascii", 38, -1, 2), _sized("ml", 1, 0, 3)])
    yield dict(mode="host", blank_start=True, files=[_sized("ml", 1, 5, 1), _sized("basic", 2, 0, 2), _sized("ascii", 65, 0, 3), _sized("ml", 1, 0, 4)])
    yield dict(mode="host", files=[_sized("ml", 28, 0, 1), _sized("ml", 28, 0, 2), _sized("ml", 13, 0, 3), _sized("ml", 12, 0, 4), _sized("ascii", 1, 0, 5)])
    yield dict(mode="host", files=[_sized("basic", 28, 0, 1), _sized("ascii", 28, 0, 2), _sized("ascii", 13, 0, 3), _sized("ascii", 12, 0, 4), _sized("ml", 1, 0, 5)])


def searches(tier):
    q = tier == "quick"
    return [("memory", _memory, 1200 if q else 40000), ("host", _host, 96 if q else 3000)]


def render(case):
    return dict(mode=case["mode"], order="default" if not case.get("order") else case["order"][:10] + ["..."],
                needs=[filegen.stream_len(f) // 2304 + 1 for f in case["files"]], kinds=[f["kind"] for f in case["files"]][:20])


def _fat_dir(image):
    fat = bytes(bytearray(image[dskref.FAT_OFFSET:dskref.FAT_OFFSET + 68]))
    live = sum(1 for s in range(72) if image[dskref.DIR_OFFSET + 32 * s] not in (0x00, 0xFF))
    return fat, live


def _rebuild(case, accepted):
    from cocoasm.virtualfiles.disk import DiskFile
    disk = DiskFile(granule_fill_order=list(case["order"]) if case.get("order") else None)
    for f, data in accepted:
        disk.add_file(filegen.to_coco(f, data))
    return disk


def execute(case):
    from cocoasm.virtualfiles.disk import DiskFile
    files = case["files"]
    labels = ["mode:" + case["mode"]]
    free = 68
    refused = False
    if case["mode"] == "memory":
        disk = DiskFile(granule_fill_order=list(case["order"]) if case.get("order") else None)
        fat, live = _fat_dir(disk.get_buffer())
        accepted = []
        objects = {}
        if case.get("reuse"):
            labels.append("same_object_again")
        for idx, f in enumerate(files):
            need = filegen.stream_len(f) // 2304 + 1
            data = filegen.expand(f["data"])
            if case.get("reuse"):       # the caller stores one and the same file object again (a second copy of a file)
                key = json.dumps(f, sort_keys=True)
                obj = objects.setdefault(key, filegen.to_coco(f, data))
            else:
                obj = filegen.to_coco(f, data)
            try:
                disk.add_file(obj)
                raised = None
            except Exception as err:
                raised = err
            if need > free:
                refused = True
                if raised is None:
                    return viol("add #{} needs {} granules, {} are free, but it was accepted".format(idx, need, free),
                                fid="C15:accepted-overflow", labels=labels)
                # the refusal must not have consumed anything: continue on a fresh image holding the accepted files
                disk = _rebuild(case, accepted)
                fat, live = _fat_dir(disk.get_buffer())
                continue
            if raised is not None:
                return viol("add #{} needs {} granules, {} are free, but it failed: {}: {}".format(
                    idx, need, free, type(raised).__name__, raised), fid="C15:refused-although-fits", labels=labels)
            fat2, live2 = _fat_dir(disk.get_buffer())
            changed = [g for g in range(68) if fat[g] != fat2[g]]
            if len(changed) != need or any(fat[g] != 0xFF for g in changed):
                return viol("add #{} needs {} granules: FAT entries changed {} (previous values {})".format(
                    idx, need, changed, [fat[g] for g in changed]), fid="C15:granule-count", labels=labels)
            if live2 != live + 1:
                return viol("add #{}: live directory entries {} -> {}".format(idx, live, live2), fid="C15:slots", labels=labels)
            fat, live = fat2, live2
            free -= need
            accepted.append((f, data))
    else:
        from cocoasm.virtualfiles.virtual_file import VirtualFile, VirtualFileType
        from cocoasm.virtualfiles.source_file import SourceFile, SourceFileType
        stored = []
        with driver.TempDir() as tmp:
            path = os.path.join(tmp, "disk.dsk")
            if case.get("blank_start"):
                # the empty disk is an existing host file (a freshly formatted image: 161,280 bytes of $FF)
                labels.append("blank_image_file")
                with open(path, "wb") as fh:
                    fh.write(b"\xff" * dskref.IMAGE_SIZE)
            for idx, f in enumerate(files):
                need = filegen.stream_len(f) // 2304 + 1
                data = filegen.expand(f["data"])
                before = open(path, "rb").read() if os.path.exists(path) else None
                try:
                    vf = VirtualFile(SourceFile(path, file_type=SourceFileType.BINARY), VirtualFileType.DISK)
                    vf.open_virtual_file()
                    vf.add_coco_file(filegen.to_coco(f, data))
                    vf.save_virtual_file(append_mode=True)
                    raised = None
                except Exception as err:
                    raised = err
                after = open(path, "rb").read() if os.path.exists(path) else None
                if need > free:
                    refused = True
                    if raised is None:
                        return viol("host add #{} needs {} granules, {} free, but was accepted".format(idx, need, free),
                                    fid="C15:accepted-overflow", labels=labels)
                    if after != before:
                        return viol("host add #{} was refused ({}) but the host file changed".format(idx, raised),
                                    fid="C15:host-changed-on-refusal", labels=labels)
                    continue
                if raised is not None:
                    return viol("host add #{} needs {} granules, {} free, but failed: {}: {}".format(
                        idx, need, free, type(raised).__name__, raised), fid="C15:refused-although-fits", labels=labels)
                free -= need
                stored.append((f, data))
                problems = dskref.fsck(after) if after is not None else ["no file written"]
                if problems:
                    return viol("host file after add #{}: {}".format(idx, problems[0]), fid="C15:host-fsck", labels=labels)
                ents = dskref.entries(after)
                used = sum(len(e.chain) for e in ents)
                if used != 68 - free or len(ents) != len(stored):
                    return viol("host file after add #{}: {} granules / {} entries in use, model says {} / {}".format(
                        idx, used, len(ents), 68 - free, len(stored)), fid="C15:host-accounting", labels=labels)
    if free <= 2:
        labels.append("near_full")
    if refused:
        labels.append("refused")
    return ok(labels=labels, nontrivial=free <= 2 or refused)
