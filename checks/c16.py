"""C16 - file_util conversions carry every selected file across unchanged."""
import os
import random

from hypothesis import strategies as st

from vlib import casref, driver, dskref, filegen
from vlib.harness import ok, skip, viol
from checks import c10

PID = "C16"
RULE = ("Real file_util.py processes in a temp directory. Source image: cassette or disk, written by the tool's own "
        "containers or by the independent writers (arbitrary leaders / scattered granule chains; half of the independently written disks have killed directory entries - first byte $00 - in front of and between the live ones), holding 1-5 files "
        "with names in upper, lower or mixed case (in one case of three two files share a name, same or swapped letter case), all kinds (file types 0-3 x both data types), boundary lengths (1..30000 bytes). Target: "
        "--to_cas / --to_dsk / --to_bin; --files absent, a subset spelled in upper / lower / mixed case, or a name "
        "that matches nothing; chains source -> other kind -> back; in two runs of five both --to_cas and --to_dsk are given at once (either order) and each target is judged. Oracle: the independent reader of the target finds "
        "exactly the selected files in source order with identical type, data type, data, and (machine language) load "
        "and entry addresses, names equal case-insensitively (8 characters); converting back gives the original set; "
        "--to_bin gives the single file's data byte for byte, and with >= 2 files exits non-zero without writing. "
        "Non-trivial = a --files selection, a chain of >= 2 conversions, or a lower-case name; distinct by case hash.")
ASSUMPTIONS = [
    "vlib/casref.py and vlib/dskref.py read sources and targets",
    "addresses are compared for machine-language files only (a disk stores none for other kinds); extensions are not "
    "compared (a tape has none)",
    "zero-length files are not generated (known finding F-C06-empty-file-ends-listing)",
]
HEALTH = {"files_filter": 0.12, "chain": 0.1, "lowercase_name": 0.12, "to_bin": 0.032, "both_targets": 0.08, "killed_entries_in_source": 0.04}
EXHAUSTIVE = {}

_NAMES = ["HELLO", "hello2", "World", "a", "Zz9", "LONGNAME", "mixedCas", "x1", "PROG", "data", "Q", "abc"]
_LENS = [1, 2, 200, 254, 255, 256, 257, 510, 2293, 2294, 2299, 2304, 2305, 4000, 6000, 4598, 12000, 30000]


def _mk_files(picks):
    out = []
    used = set()
    for (ni, kind, li, k, load, exe) in picks:
        name = _NAMES[ni % len(_NAMES)]
        while name.upper() in used:
            ni += 1
            name = _NAMES[ni % len(_NAMES)]
        used.add(name.upper())
        ftype, dtype = {"ml": (2, 0), "basic": (0, 0), "ascii": (0, 0xFF), "data": (1, 0xFF), "ml_ascii": (2, 0xFF), "text": (3, 0xFF),
                        "text_bin": (3, 0), "data_bin": (1, 0)}[kind]
        out.append(dict(name=name, ext="BIN" if ftype == 2 else "BAS", kind=kind, ftype=ftype, dtype=dtype,
                        load=load if ftype == 2 else 0, exec=exe if ftype == 2 else 0,
                        data=dict(n=_LENS[li % len(_LENS)], k=k, mode=k % 4, head="", tail="")))
    return out


_pick = st.tuples(st.integers(0, 11), st.sampled_from(["ml", "ml", "basic", "ascii", "data", "ml_ascii", "text", "text_bin", "data_bin"]), st.integers(0, 17),
                  st.integers(0, 10 ** 6), filegen.word, filegen.word)
_files = st.lists(_pick, min_size=1, max_size=5).map(_mk_files)
_case = st.fixed_dictionaries(dict(
    src_kind=st.sampled_from(["cas", "dsk"]), writer=st.sampled_from(["tool", "independent"]), files=_files,
    target=st.sampled_from(["cas", "dsk", "other", "other", "bin"]),
    select=st.sampled_from(["all", "all", "subset", "subset", "nomatch"]), sel_mask=st.integers(1, 31),
    sel_case=st.sampled_from(["upper", "lower", "as_is", "swap"]), back=st.booleans(), k=st.integers(0, 10 ** 6),
    dup=st.integers(0, 5), both=st.sampled_from([0, 0, 0, 1, 2])))


def enumerated(tier, seed):
    return []


def searches(tier):
    return [("conversions", _case, 640 if tier == "quick" else 30000)]


def render(case):
    out = dict(case)
    out["files"] = [filegen.short_file(f) for f in _files_of(case)]
    return out


def _write_source(case, datas, path):
    from cocoasm.virtualfiles.cassette import CassetteFile
    from cocoasm.virtualfiles.disk import DiskFile
    files = case["files"]
    rnd = random.Random(case["k"])
    if case["writer"] == "tool":
        cont = CassetteFile() if case["src_kind"] == "cas" else DiskFile()
        cont.add_files([filegen.to_coco(f, d) for f, d in zip(files, datas)])
        raw = bytes(bytearray(cont.get_buffer()))
    elif case["src_kind"] == "cas":
        raw = c10.make_cas([dict(f, data=d) for f, d in zip(files, datas)], lead=rnd.choice([1, 16, 128, 300]),
                           gapflag=rnd.choice([0, 0, 0xFF]))
    else:
        raw = c10.make_dsk([dict(f, data=d) for f, d in zip(files, datas)], rnd, holes=case["k"] % 2 == 1)
    with open(path, "wb") as fh:
        fh.write(raw)


def _read(kind, raw):
    if kind == "cas":
        return [f.as_dict() for f in casref.parse(raw)]
    probs = dskref.fsck(raw)
    if probs:
        raise dskref.DiskError(probs[0])
    return dskref.read(raw)


def _compare(got, want):
    if len(got) != len(want):
        return "{} files, expected {} ({})".format(len(got), len(want), [w[0]["name"] for w in want])
    for i, (g, (f, d)) in enumerate(zip(got, want)):
        if filegen.norm_name(g["name"]) != filegen.norm_name(f["name"]):
            return "file {}: name {!r}, expected {!r}".format(i, g["name"], f["name"])
        if g["ftype"] != f["ftype"] or g["dtype"] != f["dtype"]:
            return "file {}: type/data type {}/{} expected {}/{}".format(i, g["ftype"], g["dtype"], f["ftype"], f["dtype"])
        if bytes(g["data"]) != d:
            return "file {}: data differs ({} bytes, expected {})".format(i, len(g["data"]), len(d))
        if f["ftype"] == 2 and (g["load"], g["exec"]) != (f["load"], f["exec"]):
            return "file {}: load/entry {}/{} expected {}/{}".format(i, g["load"], g["exec"], f["load"], f["exec"])
    return None


def _files_of(case):
    """the case's files; in one case of three the last file takes the first one's name (same or swapped letter case):
    an image may hold several files of one name, and every one of them is a file of the source"""
    files = [dict(f) for f in case["files"]]
    # the file set has to fit on a disk (68 granules) whenever a disk is the source or a target: trailing files are dropped
    used = 0
    for i, f in enumerate(files):
        used += filegen.stream_len(f) // 2304 + 1
        if used > 68:
            files = files[:i]
            break
    if case.get("dup", 1) % 3 == 0 and len(files) >= 2:
        first = files[0]["name"]
        files[-1]["name"] = first.swapcase() if case["dup"] == 3 else first
    return files


def execute(case):
    files = _files_of(case)
    case = dict(case, files=files)
    datas = [filegen.expand(f["data"]) for f in files]
    labels = ["src:" + case["src_kind"], "writer:" + case["writer"]]
    if case["writer"] == "independent" and case["src_kind"] == "dsk" and case["k"] % 2 == 1:
        labels.append("killed_entries_in_source")
    if len(set(f["name"].upper() for f in files)) < len(files):
        labels.append("duplicate_name")
    if any(f["name"] != f["name"].upper() for f in files):
        labels.append("lowercase_name")
    target = case["target"]
    if target == "other":
        target = "dsk" if case["src_kind"] == "cas" else "cas"
    selected = list(zip(files, datas))
    argv_files = []
    if case["select"] != "all" and target != "bin":
        labels.append("files_filter")
        if case["select"] == "nomatch":
            argv_files = ["--files", "NOSUCHFL"]
            selected = []
        else:
            idx = [i for i in range(len(files)) if case["sel_mask"] >> i & 1] or [0]
            chosen = set(files[i]["name"].upper() for i in idx)
            selected = [(f, d) for f, d in zip(files, datas) if f["name"].upper() in chosen]     # every file of a chosen name
            spell = {"upper": str.upper, "lower": str.lower, "as_is": str, "swap": str.swapcase}[case["sel_case"]]
            names = []
            for i in reversed(idx):
                if files[i]["name"].upper() not in [n.upper() for n in names]:
                    names.append(files[i]["name"])
            argv_files = ["--files"] + [spell(n) for n in names]
    nontrivial = bool(argv_files) or "lowercase_name" in labels
    with driver.TempDir() as tmp:
        src = "source." + case["src_kind"]
        _write_source(case, datas, os.path.join(tmp, src))
        if target == "bin":
            labels.append("to_bin")
            bin_argv = [src, "--to_bin", "out.bin"]
            if len(files) >= 2 and case["select"] == "subset":
                # naming one file does not change what the image holds: more than one file, so --to_bin refuses
                bin_argv += ["--files", {"upper": str.upper, "lower": str.lower, "as_is": str, "swap": str.swapcase}[case["sel_case"]](
                    files[case["sel_mask"] % len(files)]["name"])]
                labels.append("to_bin_with_files")
            res = driver.run_cli("file_util.py", bin_argv, cwd=tmp)
            outp = os.path.join(tmp, "out.bin")
            if "Traceback" in res.stderr:
                return viol("file_util.py --to_bin crashed: {}".format(res.stderr[-200:]), fid="C16:crash", labels=labels)
            if len(files) >= 2:
                if res.status == 0 or os.path.exists(outp):
                    return viol("--to_bin with {} files: exit {} and target {}".format(
                        len(files), res.status, "written" if os.path.exists(outp) else "absent"), fid="C16:bin-multi", labels=labels)
                return ok(labels=labels, nontrivial=True)
            if res.status != 0 or not os.path.exists(outp):
                return viol("--to_bin with one file: exit {} stdout {!r}".format(res.status, res.stdout[-200:]), fid="C16:bin-failed", labels=labels)
            if open(outp, "rb").read() != datas[0]:
                return viol("--to_bin wrote different bytes than the file's data", fid="C16:bin-data", labels=labels)
            return ok(labels=labels, nontrivial=nontrivial)
        out1 = "out1." + target
        conv = ["--to_" + target, out1]
        other = "dsk" if target == "cas" else "cas"
        if case.get("both"):        # one run that names a cassette and a disk target: each is a conversion of its own
            labels.append("both_targets")
            nontrivial = True
            conv = conv + ["--to_" + other, "outo." + other] if case["both"] == 1 else ["--to_" + other, "outo." + other] + conv
        res = driver.run_cli("file_util.py", [src] + conv + argv_files, cwd=tmp)
        if res.status != 0 or "Traceback" in res.stderr:
            return viol("conversion {} -> {} {} failed: exit {} {!r}".format(src, out1, argv_files, res.status, (res.stdout + res.stderr)[-200:]),
                        fid="C16:convert-failed", labels=labels)
        p1 = os.path.join(tmp, out1)
        if not os.path.exists(p1):
            if not selected:
                return ok(labels=labels, nontrivial=True)
            return viol("target {} was not written".format(out1), fid="C16:no-target", labels=labels)
        raw1 = open(p1, "rb").read()
        try:
            got = _read(target, raw1) if raw1 else []
        except (casref.TapeError, dskref.DiskError) as err:
            return viol("target {} is not a well-formed image: {}".format(out1, err), fid="C16:target-malformed", labels=labels)
        bad = _compare(got, selected)
        if bad:
            return viol("{} -> {} {}: {}".format(src, out1, argv_files, bad), fid="C16:forward:" + bad.split(":")[0][:12], labels=labels)
        if case.get("both"):
            po = os.path.join(tmp, "outo." + other)
            if not os.path.exists(po):
                if selected:
                    return viol("second target outo.{} of {} was not written".format(other, conv), fid="C16:no-target", labels=labels)
            else:
                rawo = open(po, "rb").read()
                try:
                    goto = _read(other, rawo) if rawo else []
                except (casref.TapeError, dskref.DiskError) as err:
                    return viol("target outo.{} of {} is not a well-formed image: {}".format(other, conv, err), fid="C16:target-malformed", labels=labels)
                bad = _compare(goto, selected)
                if bad:
                    return viol("{} {} {}: outo.{}: {}".format(src, conv, argv_files, other, bad), fid="C16:both:" + bad.split(":")[0][:12], labels=labels)
        if case["back"] and selected:
            labels.append("chain")
            nontrivial = True
            out2 = "out2." + case["src_kind"]
            res = driver.run_cli("file_util.py", [out1, "--to_" + case["src_kind"], out2], cwd=tmp)
            if res.status != 0 or "Traceback" in res.stderr:
                return viol("conversion back {} -> {} failed: exit {} {!r}".format(out1, out2, res.status, (res.stdout + res.stderr)[-200:]),
                            fid="C16:back-failed", labels=labels)
            try:
                got2 = _read(case["src_kind"], open(os.path.join(tmp, out2), "rb").read())
            except (casref.TapeError, dskref.DiskError, OSError) as err:
                return viol("result of converting back is unreadable: {}".format(err), fid="C16:back-malformed", labels=labels)
            bad = _compare(got2, selected)
            if bad:
                return viol("{} -> {} -> {}: {}".format(src, out1, out2, bad), fid="C16:back:" + bad.split(":")[0][:12], labels=labels)
    return ok(labels=labels, nontrivial=nontrivial)
