"""C17 - assembler output depends only on the source text."""
import hashlib
import json
import os
import subprocess
import sys

from hypothesis import strategies as st

from vlib import driver
from vlib.harness import VERIF, HarnessError, ok, viol
from checks import c13

PID = "C17"
RULE = ("A program P and a history Q1..Qk (k = 0..6), all drawn from the C13 generators (valid programs, mutated programs, "
        "token programs: accepted, rejected and crashing ones alike, sharing label / EQU names and operand strings so "
        "that a stale cache would be hit). P is assembled (fresh Program object) before the history, after each prefix "
        "of the history, and twice in a row; in half of the cases the history is assembled first and P only afterwards, "
        "judged against a fresh interpreter process (a cache in which the first binding wins shows only this way); in 1 case of 12 also in fresh interpreter processes with PYTHONHASHSEED 0, "
        "1 and 12345 (ten hash seeds for the enumerated programs whose EQU definitions depend on each other). Oracle: the canonical result (outcome class, image, every listing line, every symbol line in "
        "order, origin, name, diagnostic text) is identical in all runs; the list of lines passed in equals its copy (also for enumerated programs whose first line begins with a byte order mark, a DOS end-of-file mark or a tab, ends in blanks, or whose last line has no line end) "
        "afterwards; the module tables (INSTRUCTIONS, REGISTERS, the regular expressions) hash the same before and "
        "after. Whenever a fresh process is consulted, the lines are also written to a file and given to a real assembler.py "
        "process (--to_bin): it must accept exactly when the warm run accepts and write the same image (enumerated with "
        "VT, FF, FS, GS, RS, NEL, U+2028, U+2029 in a comment and in a string). Non-trivial = k >= 1 with a rejected or crashed Q, or a fresh-process comparison; distinct by case hash.")
ASSUMPTIONS = [
    "results are compared byte for byte; no reference model is involved",
    "the worker process is already warm from earlier cases: 'before the history' means 'first time in this case'",
]
HEALTH = {"history_with_failure": 0.08, "fresh_process": 16, "fresh_cli": 16}
FLAKY_IS_VIOLATION = True      # a leak changes the process: the same history run twice in one process need not fail twice
EXHAUSTIVE = {}

_prog = st.one_of(c13._valid, c13._mutation, c13._tokens)
def _mk_case(p, qs, fresh, history_first, crlf=0):
    case = dict(p=p["lines"], qs=[q["lines"] for q in qs], fresh=fresh == 0)
    if crlf == 0:       # the lines as a file with CR LF line ends delivers them when it is read in binary-safe fashion
        case["p"] = [l[:-1] + "\r\n" if l.endswith("\n") and not l.endswith("\r\n") else l for l in case["p"]]
    if history_first and qs:
        # "first binding wins" caches: the history must come before P is ever assembled in this interpreter state, and
        # the only clean reference is an interpreter that has seen nothing else
        case.update(history_first=True, fresh=True, hashseeds=[0])
    return case


_case = st.builds(_mk_case, _prog, st.lists(_prog, min_size=0, max_size=6), st.integers(0, 11), st.booleans(), st.integers(0, 5))


def enumerated(tier, seed):
    # same labels, different meanings: a stale symbol / operand cache would surface here
    a = [" ORG $1000\n", "L0 LDA #1\n", "E0 EQU 5\n", " LDB #E0\n", " BRA L0\n"]
    b = [" ORG $2000\n", " NOP \n", "L0 LDA #2\n", "E0 EQU $1234\n", " LDX #E0\n", " LBRA L0\n"]
    c = ["L0 FOO 1\n"]
    d = ["L0 NOP \n", " JMP L0/0\n"]
    for p in (a, b):
        for qs in ([b], [a], [c, b], [d, a, b], [a, a], [c, d]):
            yield dict(p=p, qs=qs, fresh=True)
        yield dict(p=[l[:-1] + "\r\n" for l in p], qs=[a], fresh=True)       # CR LF line ends: the list must come back untouched
    # first lines as odd files deliver them (a byte order mark, a DOS end-of-file mark, a tab, trailing blanks, no line
    # end on the last line): accepted or refused, the list must come back untouched and repeated runs must agree
    for first in ("\ufeff ORG $1000\n", "\ufeffL0 LDA #1\n", "\ufeff\n", "\x1a\n", "\t ORG $1000\n", " ORG $1000   \n", "\n"):
        yield dict(p=[first, "L1 LDA #1\n", " BRA L1\n"], qs=[a], fresh=False)
        yield dict(p=[first, "L1 LDA #1\n", " BRA L1"], qs=[], fresh=False)
    # characters that str.splitlines treats as line ends but a text file read line by line does not, in a comment and in
    # a string: the fresh assembler.py process must see the same lines as the warm one
    for ch in ("\x0b", "\x0c", "\x1c", "\x1d", "\x1e", "\x85", "\u2028", "\u2029"):
        yield dict(p=[" ORG $1000\n", "L0 LDA #1 ; page" + ch + "break\n", " BRA L0\n"], qs=[], fresh=True, hashseeds=[0], cli=True)
        yield dict(p=[" ORG $1000\n", "L0 FCC /a" + ch + "b/\n", " BRA L0\n"], qs=[a], fresh=True, hashseeds=[0], cli=True)
    # lines a file reader might be tempted to drop or join (EDTASM's * comment lines, blank lines, a lone ;, a label
    # alone, a last line without a line end): whatever the tool makes of them, both routes make the same of them
    for extra in ("* title\n", "   *** part ***\n", "*\n", "\n", "   \n", ";\n", " ; note\n", "ALONE\n", "\t\n", "* LDA #1\n"):
        for at in (0, 1, 3):
            body = [" ORG $1000\n", "L0 LDA #1\n", " BRA L0\n"]
            yield dict(p=body[:at] + [extra] + body[at:], qs=[], fresh=True, hashseeds=[0], cli=True)
    # the same list-element spellings bound to different values in different programs
    e = [" ORG $0E00\n", "E0 EQU $28\n", " NOP \n", "L0 RMB 8\n", " FDB L0+2,E0*2,0\n", " FCB E0,1,E0+1\n"]
    f = [" ORG $3000\n", "L0 FDB L0+2,E0*2,0\n", "E0 EQU $10\n", " FCB E0,1,E0+1\n"]
    g = [" ORG $0E00\n", "E0 EQU 7\n", " FDB L0+2,E0*2,0\n", " FOO \n", "L0 NOP \n"]
    h = [" ORG $0100\n", "L0 NOP \n", "E0 EQU L0+3\n", " FDB L0+2,E0*2,0\n", " FCB E0,1,E0+1\n", " FDB E0,L0\n", " FCB 1,2,3\n"]
    for p in (e, f, h):
        for qs in ([f], [e], [g], [h], [g, f, e]):
            yield dict(p=p, qs=qs, fresh=False)
            yield dict(p=p, qs=qs, fresh=True, history_first=True, hashseeds=[0])
    # one-line programs, accepted and rejected ones, one per operand class: every ordered pair (history Q, then P),
    # P judged against a fresh interpreter - a table, generator or flag that one operand class leaves behind for
    # another shows here
    pool = [" PSHS A,B\n", " PSHU A,B\n", " PULS X,U\n", " PULU X,S\n", " TFR A,B\n", " EXG X,Y\n", " LDA #1\n", " LDX #$1234\n", " LDA ,X+\n",
            " LDB X\n", " LDA [,Y]\n", " LEAX 5,U\n", " LDA A,X\n", " JMP [$1000]\n", " FCB 1,2\n", " FDB 1,2\n", " FCC /a/\n", " LDA <$10\n",
            " LDA 1,PCR\n", " PSHS A,S\n", " PSHU U\n", " PULS S\n", " PULU X,U\n", " TFR A,X\n", " EXG D,B\n", " LDA #256\n", " STA #1\n",
            " LDA ,Z\n", " LDA [,X+]\n", " LEAX $10\n", " FCB 256\n", " LDA 5,PC\n", " LDB S\n", " LDA [B,U]\n"]
    for q in pool:
        for p in pool:
            if p != q:
                yield dict(p=[p], qs=[[q]], fresh=True, history_first=True, hashseeds=[0])
    # definitions that depend on each other in every order: the result must not depend on hashing (fresh processes
    # under ten hash seeds)
    defs = ["SCREEN EQU $0400\n", "WIDTH EQU 32\n", "ROW1 EQU SCREEN+WIDTH\n", "ROW2 EQU ROW1+WIDTH\n", "ROW3 EQU ROW2+WIDTH\n",
            "LAST EQU ROW3-1\n", "HALF EQU WIDTH/2\n", "MID EQU ROW1+HALF\n"]
    body = [" ORG $2000\n", "START LDX #ROW3\n", " LDA MID\n", " FDB LAST,ROW2,MID\n", "TAB EQU START+3\n", " LDY #TAB\n"]
    for order in (list(range(8)), list(range(7, -1, -1)), [3, 7, 1, 5, 0, 6, 2, 4], [5, 4, 3, 2, 7, 6, 1, 0]):
        yield dict(p=[defs[i] for i in order[:4]] + body + [defs[i] for i in order[4:]], qs=[], fresh=True, hashseeds=list(range(10)))
    # a directive repeated with different operands (NAM, ORG before code, SETDP, END): whichever one counts, it must be
    # the same one under every hash seed
    multi = [" NAM ALPHA\n", " ORG $1000\n", " NAM BRAVO\n", " ORG $2000\n", " SETDP 1\n", "L0 LDA #1\n", " NAM GAMMA\n", " SETDP 2\n", " NAM DELTA\n",
             " END L0\n", " NAM ECHO\n"]
    for variant in (multi, multi[::2] + [" NOP \n"], [l for l in multi if " ORG " not in l]):
        yield dict(p=variant, qs=[], fresh=True, hashseeds=list(range(10)))
    # histories with INCLUDE: failures below an include must not leak into later assemblies
    files = {"outer.asm": [" NOP \n", " INCLUDE inner.asm\n"], "inner.asm": ["LI LDA #1\n"], "bad.asm": [" INCLUDE gone.asm\n"],
             "loop.asm": [" INCLUDE loop.asm\n"], "broken.asm": [" NOP \n", " INCLUDE syntax.asm\n"], "syntax.asm": [" FOO 1\n"]}
    good = [" ORG $1000\n", " INCLUDE outer.asm\n", " BRA LI\n"]
    for qs in ([[" INCLUDE bad.asm\n"]], [[" INCLUDE loop.asm\n"]], [[" INCLUDE broken.asm\n"]],
               [[" INCLUDE outer.asm\n", " INCLUDE bad.asm\n"], [" INCLUDE broken.asm\n"], good]):
        yield dict(p=good, qs=qs, fresh=False, files=files)
    # an included file whose contents differ between two assemblies in the same interpreter (a regenerated config):
    # the history runs first, then P is compared with a fresh process
    cfg_a = ["DELAY EQU $11\n"]
    cfg_b = ["DELAY EQU $22\n", "EXTRA EQU 1\n"]
    user = [" ORG $1000\n", " INCLUDE cfg.asm\n", " LDA #DELAY\n"]
    yield dict(p=user, qs=[dict(lines=user, files_during={"cfg.asm": cfg_b})], fresh=True, history_first=True,
               files={"cfg.asm": cfg_a})
    yield dict(p=user, qs=[dict(lines=[" INCLUDE cfg.asm\n"], files_during={"cfg.asm": cfg_b}), [" FOO \n"]], fresh=True,
               history_first=True, files={"cfg.asm": cfg_a})
    # the same includer fails while a nested file is temporarily missing, then must assemble as before
    yield dict(p=good, qs=[dict(lines=good, hide=["inner.asm"])], fresh=False, files=files)
    yield dict(p=good, qs=[dict(lines=[" INCLUDE outer.asm\n"], hide=["inner.asm"]), [" INCLUDE loop.asm\n"]], fresh=False, files=files)


def searches(tier):
    return [("histories", _case, 1600 if tier == "quick" else 40000)]


def render(case):
    return dict(p=[l.rstrip("\n") for l in case["p"]][:20], history_lengths=[len(q["lines"] if isinstance(q, dict) else q) for q in case["qs"]],
                fresh=case["fresh"], files=sorted(case.get("files", {})))


def _tables_hash():
    import cocoasm.instruction as ci
    import cocoasm.operands as co
    import cocoasm.statement as cs
    import cocoasm.values as cv
    h = hashlib.blake2b(digest_size=8)
    # module-level tables, if the tree (still) has them under these names
    h.update(repr(getattr(ci, "INSTRUCTIONS", None)).encode())
    h.update(repr(getattr(co, "REGISTERS", None)).encode())
    for mod in (co, cs, cv):
        for name in sorted(dir(mod)):
            obj = getattr(mod, name)
            if name.endswith("_REGEX") and hasattr(obj, "pattern"):
                h.update(name.encode() + obj.pattern.encode())
    return h.hexdigest()


def _fresh(lines, hashseed):
    env = dict(os.environ, PYTHONHASHSEED=str(hashseed), PYTHONDONTWRITEBYTECODE="1")
    proc = subprocess.run([sys.executable, "-B", os.path.join(VERIF, "tools", "asm_once.py")], input=json.dumps(lines).encode(),
                          stdout=subprocess.PIPE, stderr=subprocess.PIPE, env=env, timeout=120)
    if proc.returncode != 0:
        raise HarnessError("asm_once.py failed: " + proc.stderr.decode()[-300:])
    return json.loads(proc.stdout.decode().strip().splitlines()[-1])


def _jsonable(canon):
    return json.loads(json.dumps([c.hex() if isinstance(c, bytes) else c for c in canon], default=str))


def execute(case):
    if case.get("files"):
        import os
        with driver.TempDir() as tmp:
            for name, flines in case["files"].items():
                with open(os.path.join(tmp, name), "w", newline="") as fh:
                    fh.write("".join(flines))
            old = os.getcwd()
            os.chdir(tmp)
            try:
                return _execute(case)
            finally:
                os.chdir(old)
    return _execute(case)


def _execute(case):
    labels = []
    tables = _tables_hash()
    p = list(case["p"])
    keep = list(p)
    if case.get("history_first"):
        # the history is assembled before P is ever seen by this interpreter state; P is judged against fresh processes
        for q in case["qs"]:
            if _run_history_item(q)[2]:
                return viol("the list of source lines was modified by assembling it", fid="C17:input-modified", labels=labels)
    first = driver.canonical(driver.assemble(p))
    if p != keep:
        return viol("the list of source lines was modified by assembling it", fid="C17:input-modified", labels=labels)
    failures = 0
    for i, q in enumerate(case["qs"]):
        out, q, modified = _run_history_item(q)
        if modified:
            return viol("the list of source lines was modified by assembling it", fid="C17:input-modified", labels=labels)
        if out.kind != "OK":
            failures += 1
        again = driver.canonical(driver.assemble(list(keep)))
        if again != first:
            return viol("result of P changed after assembling history item {} ({}): {!r} -> {!r}".format(
                i, out.kind, _short(first), _short(again)), fid="C17:history-dependence", labels=labels)
    twice = driver.canonical(driver.assemble(list(keep)))
    if twice != first:
        return viol("two consecutive assemblies of the same source differ: {!r} vs {!r}".format(_short(first), _short(twice)),
                    fid="C17:repeat", labels=labels)
    if _tables_hash() != tables:
        return viol("module-level tables changed while assembling", fid="C17:tables", labels=labels)
    if failures:
        labels.append("history_with_failure")
    if case["fresh"]:
        labels.append("fresh_process")
        want = _jsonable(first)
        for hs in case.get("hashseeds", (0, 1, 12345)):
            got = _fresh(keep, hs)
            if got != want:
                return viol("fresh process with PYTHONHASHSEED={} gives {!r}, warm process gave {!r}".format(hs, _short(got), _short(want)),
                            fid="C17:fresh-process", labels=labels)
    if case.get("cli") or case["fresh"]:
        # the fresh process a user starts is assembler.py on a file holding these lines: same verdict, same image
        bad = _cli_disagrees(keep, labels, bool(case.get("files")))
        if bad:
            return viol(bad, fid="C17:fresh-cli", labels=labels)
    return ok(labels=labels, nontrivial=bool(failures) or case["fresh"])


def _cli_disagrees(lines, labels, copy_cwd):
    import os
    for l in lines:
        body = l[:-2] if l.endswith("\r\n") else l[:-1]
        if not l.endswith("\n") or "\n" in body or "\r" in body:
            return None         # not the lines a text file delivers
    warm = driver.assemble(list(lines))
    if warm.kind not in ("OK", "DIAG") or (warm.kind == "OK" and not warm.image):
        return None
    with driver.TempDir() as tmp:
        for name in (os.listdir(".") if copy_cwd else []):        # the case's included files (the cwd is its directory)
            if name.endswith(".asm") and os.path.isfile(name):
                with open(name, "rb") as src, open(os.path.join(tmp, name), "wb") as dst:
                    dst.write(src.read())
        try:
            with open(os.path.join(tmp, "p_cli.asm"), "w", newline="") as fh:
                fh.write("".join(lines))
        except UnicodeEncodeError:
            return None
        res = driver.run_cli("assembler.py", ["p_cli.asm", "--to_bin", "o.bin"], cwd=tmp)
        made = open(os.path.join(tmp, "o.bin"), "rb").read() if os.path.exists(os.path.join(tmp, "o.bin")) else None
    labels.append("fresh_cli")
    if "Traceback" in res.stderr:
        return None             # a crash of the tool is C13's subject
    if warm.kind == "OK" and (res.status != 0 or made != bytes(warm.image)):
        return "warm process accepts the program ({} bytes) but a fresh assembler.py on the same lines exits {} with {!r}: {!r}".format(
            len(warm.image), res.status, None if made is None else len(made), (res.stdout + res.stderr)[-160:])
    if warm.kind == "DIAG" and res.status == 0:
        return "warm process rejects the program ({}) but a fresh assembler.py on the same lines exits 0".format(warm.message)
    return None


def _run_history_item(q):
    """assemble one history item; a dict item may hide files or replace their contents for the duration"""
    import os
    hidden, saved = [], {}
    if isinstance(q, dict):
        for name in q.get("hide", []):
            os.rename(name, name + ".hidden")
            hidden.append(name)
        for name, flines in q.get("files_during", {}).items():
            saved[name] = open(name).read()
            with open(name, "w", newline="") as fh:
                fh.write("".join(flines))
        q = q["lines"]
    qq = list(q)
    try:
        out = driver.assemble(qq)
    finally:
        for name in hidden:
            os.rename(name + ".hidden", name)
        for name, text in saved.items():
            with open(name, "w", newline="") as fh:
                fh.write(text)
    return out, q, qq != list(q)


def _short(canon):
    text = repr(canon)
    return text[:300]
