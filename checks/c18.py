"""C18 - relocating, renaming or reformatting a program changes output only as it must."""
import copy
import os

from hypothesis import strategies as st

from vlib import driver, proggen
from vlib import ref6809 as R
from vlib.harness import ok, skip, viol

PID = "C18"
RULE = ("A generated program P (C02 generator; label references of the forms label, label+n, label-n in absolute "
        "positions - #imm16, extended, [label], label,R - and relative positions - branches, label+-n,PCR) and a drawn "
        "transformation T: shift (origin moved by D in -$4000..+$4000, incl. +-1, +-$100, keeping every address in "
        "0..65535 and on the same side of $100), rename (bijection of all labels and EQU names onto fresh names of "
        "1-10 characters, upper / lower / mixed case, never a register name or mnemonic), layout (blanks / tabs between "
        "fields, trailing blanks, comments added / changed / removed with arbitrary printable text, mnemonic in upper / "
        "lower / mixed case), suffix (1-10 further statements with new labels appended, and up to four statements that refer to labels already there at every operand width; enumerated: a variable below $100 referred to in ten forms by the program x ten forms by the appended statement; appended statements that INCLUDE a label-free file the program has already included, directly or through a wrapper). Oracle: P and T(P) are both "
        "accepted or both rejected; shift - lock-step decode: same operations, modes and lengths, absolute label "
        "operands differ by exactly D, every other byte equal, listing addresses and label symbols shifted by D, EQU "
        "symbols equal; rename / layout - image, listing addresses and symbol values identical under the name map; "
        "suffix - bytes, addresses and symbol values of the original statements unchanged. Non-trivial = P has >= 1 "
        "absolute and >= 1 relative label reference and T is not the identity; distinct by case hash.")
ASSUMPTIONS = [
    "metamorphic: both sides run the same assembler; vlib/ref6809.py is used only to align instructions for the shift relation",
    "programs whose addresses would cross $100 or leave 0..65535 under the shift are re-drawn with a smaller D",
]
HEALTH = {"T:shift": 0.04, "T:rename": 0.04, "T:layout": 0.04, "T:suffix": 0.04, "abs_and_rel": 0.08}
EXHAUSTIVE = {"quick": ["EQU chains (literal / alias / expression, 8 base spellings x 3 shapes x 4 uses) x 3 renamings that change the alphabetical order of the names"],
              "thorough": ["as quick"]}

_RESERVED = set(R.MNEMONICS) | {"A", "B", "D", "X", "Y", "U", "S", "CC", "DP", "PC", "PCR", "END", "ORG", "EQU", "SET", "RMB",
                                "FCB", "FDB", "FCC", "SETDP", "INCLUDE", "NAM"}
_L1 = "ABCDEFGHIJKLMNOPQRSTUVWXYZabcdefghijklmnopqrstuvwxyz"
_LN = _L1 + "0123456789"
_fresh_name = st.builds(lambda a, rest: a + rest, st.sampled_from(_L1), st.text(alphabet=_LN, min_size=0, max_size=9))
_COMMENTS = [None, "", "c", "set A", "x ; y", "LDA #1", "\"quoted\"", "'q", "a,b+[1]", "   spaced   ", "#$%&*()", "read/write \"x\" /y/",
             # characters that str.splitlines takes for line ends, followed by something that reads like a statement
             "was:\x0c CLRA ", "v\x0b2", "a\x1c b", "\x1d", "r\x1e LDA #1", "n\x85 NOP ", "u\u2028 RTS ", "p\u2029"]
_layout = st.fixed_dictionaries(dict(
    ws1=st.sampled_from([" ", "  ", "\t", " \t ", "        "]), ws2=st.sampled_from([" ", "  ", "\t", "\t\t", "   "]),
    ws3=st.sampled_from([" ", "", "\t", "   "]), cmt=st.one_of(st.sampled_from(_COMMENTS), st.text(alphabet=" !#$%&'()*+,-./0123456789:;<=>?@ABCXYZ[]^_abcxyz{|}~", max_size=20)),
    case=st.integers(0, 2), trail=st.sampled_from(["", "", " ", "   ", "\t"])))
# appended statements that refer to a label of the program already there, in every operand width; the last three only
# when the whole program lies below $100 (the value fits 8 bits)
_REF_FORMS = [lambda r: {"lab": "", "k": "imm16", "mn": "LDX", "val": r},
              lambda r: {"lab": "", "k": "mem", "mn": "LDA", "val": r, "force": ""},
              lambda r: {"lab": "", "k": "mem", "mn": "STB", "val": r, "force": ">"},
              lambda r: {"lab": "", "k": "mem", "mn": "JMP", "val": r, "force": ""},
              lambda r: {"lab": "", "k": "fdb", "vals": [r]},
              lambda r: {"lab": "", "k": "idx", "mn": "LDA", "reg": "X", "ind": False, "val": r},
              lambda r: {"lab": "", "k": "extind", "mn": "LDA", "val": r},
              lambda r: {"lab": "", "k": "mem", "mn": "LDA", "val": r, "force": "<"},
              lambda r: {"lab": "", "k": "imm8", "mn": "LDB", "val": r},
              lambda r: {"lab": "", "k": "fcb", "vals": [r]}]
_N_WIDE_FORMS = 7


def _ref_tail(prog, refs, page_zero):
    labs = [x["lab"] for x in prog["stmts"] if x.get("lab") and x["k"] != "equ"]
    out = []
    for form, li in refs or []:
        if not labs:
            break
        if form >= _N_WIDE_FORMS and not page_zero:
            form %= _N_WIDE_FORMS
        out.append(_REF_FORMS[form]({"sym": labs[li % len(labs)], "op": "", "c": 0}))
    return out


_T = st.one_of(
    st.fixed_dictionaries(dict(kind=st.just("shift"), d=st.one_of(st.sampled_from([1, -1, 2, 16, 255, 256, -256, 0x100, 0x1000, -0x1000, 0x3FFF, "top", "top"]),
                                                                st.integers(-0x4000, 0x4000)))),
    st.fixed_dictionaries(dict(kind=st.just("rename"), names=st.lists(_fresh_name, min_size=40, max_size=40, unique_by=lambda s: s.upper()))),
    st.fixed_dictionaries(dict(kind=st.just("layout"), layouts=st.lists(_layout, min_size=1, max_size=12))),
    st.fixed_dictionaries(dict(kind=st.just("suffix"), extra=proggen.small_program,
                               refs=st.lists(st.tuples(st.integers(0, len(_REF_FORMS) - 1), st.integers(0, 40)), max_size=4))))
_case = st.fixed_dictionaries(dict(prog=st.one_of(proggen.rich_program, proggen.rich_program, proggen.program), T=_T,
                                   cli=st.integers(0, 5)))


def enumerated(tier, seed):
    # EQU chains (literal -> alias -> expression) used inside operand expressions, renamed so that the alphabetical
    # order of the names changes: nothing about the output may depend on what the symbols are called
    import itertools
    n = 0
    for base, sp in ((16, "dec"), (16, "hex2"), (16, "hex4"), (200, "dec"), (255, "hex2"), (256, "dec"), (4660, "hex4"), (-3, "dec")):
        for shape in (0, 1, 2):
            for use in (0, 1, 2, 3):
                for order in ((0, 1, 2, 3), (3, 2, 1, 0), (1, 3, 0, 2)):
                    n += 1
                    equ = [{"lab": "BASE", "k": "equ", "val": {"lit": base, "sp": sp}},
                           {"lab": "PORT", "k": "equ", "val": {"sym": "BASE", "op": "", "c": 0}},
                           {"lab": "OFFS", "k": "equ", "val": {"sym": "PORT", "op": "+", "c": 1}}]
                    if shape == 1:
                        equ = [equ[2], equ[1], equ[0]]
                    elif shape == 2:
                        equ = [equ[1], {"lab": "MID", "k": "equ", "val": {"sym": "PORT", "op": "", "c": 0}},
                               {"lab": "OFFS", "k": "equ", "val": {"sym": "MID", "op": "-", "c": 1}}, equ[0]]
                    ref = {"sym": "OFFS", "op": "+", "c": 1}
                    if base < 0 and use in (0, 3):
                        continue
                    stmt = [{"lab": "", "k": "mem", "mn": "LDA", "val": ref, "force": ""},
                            {"lab": "", "k": "imm16", "mn": "LDX", "val": ref},
                            {"lab": "", "k": "idx", "mn": "STA", "reg": "Y", "ind": False, "val": ref},
                            {"lab": "", "k": "mem", "mn": "JMP", "val": {"sym": "OFFS", "op": "", "c": 0}, "force": ""}][use]
                    body = [{"lab": "START", "k": "inh", "mn": "NOP"}, stmt, {"lab": "", "k": "br", "mn": "BRA", "to": "START"},
                            {"lab": "TAIL", "k": "fdb", "vals": [{"sym": "START", "op": "", "c": 0}]}]
                    stmts = [{"lab": "", "k": "org", "addr": 0x1000}] + (equ + body if n % 2 else body + equ)
                    names = ["QA", "QB", "QC", "QD", "QE", "QF"]
                    perm = [names[i] for i in order] + names[4:]
                    yield dict(prog={"org": 0x1000, "stmts": stmts}, T=dict(kind="rename", names=perm))
    yield from page_zero_pairs()
    yield from include_suffix_cases()
    # a program whose last byte is at $FFFF followed by directives that emit nothing, re-spelled in lower / mixed case,
    # with other white space and comments: still the same program
    for tail in ([{"lab": "LAST", "k": "equ", "val": {"sym": "START", "op": "", "c": 0}}], [{"lab": "", "k": "nam", "text": "TOP"}],
                 [{"lab": "", "k": "setdp", "dp": 0}], [{"lab": "", "k": "end", "to": "START"}],
                 [{"lab": "SIZE", "k": "equ", "val": {"lit": 3, "sp": "dec"}}, {"lab": "", "k": "nam", "text": "TOP"}, {"lab": "", "k": "end", "to": None}]):
        stmts = [{"lab": "", "k": "org", "addr": 0xFFFD}, {"lab": "START", "k": "imm8", "mn": "LDA", "val": {"lit": 1, "sp": "dec"}},
                 {"lab": "", "k": "inh", "mn": "NOP"}] + tail
        for case_style in (1, 2):
            for ws in (" ", "\t"):
                lay = dict(ws1=ws, ws2=ws, ws3=" ", cmt=None if ws == " " else "note", case=case_style, trail="")
                yield dict(prog={"org": 0xFFFD, "stmts": stmts}, T=dict(kind="layout", layouts=[lay]))


def include_suffix_cases():
    """(INCLUDE lines carry no label: a label there has no defined meaning, see C19)
    the appended statements INCLUDE a label-free file the program has already included (directly, twice, or through
    a wrapper): the statements already there keep their bytes, addresses and symbol values"""
    files = {"poke.asm": [" STA $0400\n", " LDB #2\n"], "wrap.asm": [" NOP \n", " INCLUDE poke.asm\n"], "other.asm": [" CLRA \n"]}
    bases = [[" ORG $1000\n", "START LDA #1\n", " INCLUDE poke.asm\n", "AFTER RTS \n"],
             [" ORG $1000\n", "START LDA #1\n", " INCLUDE poke.asm\n", " INCLUDE poke.asm\n", "AFTER BRA START\n"],
             [" ORG $1000\n", "START NOP \n", " INCLUDE wrap.asm\n", "AFTER LEAX START,PCR\n"],
             [" ORG $0020\n", " INCLUDE other.asm\n", "START NOP \n", " INCLUDE wrap.asm\n", "AFTER FDB START\n"]]
    suffixes = [[" INCLUDE poke.asm\n", "MORE NOP \n"], ["MORE NOP \n", " INCLUDE wrap.asm\n"], [" INCLUDE other.asm\n", " INCLUDE poke.asm\n", "MORE JMP AFTER\n"],
                [" INCLUDE wrap.asm\n", " INCLUDE wrap.asm\n", "MORE FDB AFTER,START\n"]]
    for base in bases:
        for suffix in suffixes:
            yield dict(inc_suffix=dict(base=base, suffix=suffix, files=files))


def execute_inc_suffix(case):
    c = case["inc_suffix"]
    labels = ["T:suffix", "suffix_with_include"]
    with driver.TempDir() as tmp:
        for name, flines in c["files"].items():
            with open(os.path.join(tmp, name), "w", newline="") as fh:
                fh.write("".join(flines))
        A = driver.assemble(list(c["base"]), cwd=tmp)
        B = driver.assemble(list(c["base"]) + list(c["suffix"]), cwd=tmp)
    ctx = " P={!r} suffix={!r}".format([l.strip() for l in c["base"]], [l.strip() for l in c["suffix"]])
    if A.kind in ("CRASH", "HANG") or B.kind in ("CRASH", "HANG"):
        return skip("crash/hang: judged by C13", labels=labels)
    if A.kind != "OK":
        return viol("valid program with includes rejected ({}).".format(A.message) + ctx, fid="C18:suffix:include-base", labels=labels)
    if B.kind != "OK":
        return viol("suffix: P is accepted but P + suffix is rejected ({}).".format(B.message) + ctx, fid="C18:suffix:accept-differs", labels=labels)
    if B.image[:len(A.image)] != A.image:
        return viol("suffix: the bytes of the original statements changed." + ctx, fid="C18:suffix:image", labels=labels)
    if [(r[0], r[1]) for r in A.rows] != [(r[0], r[1]) for r in B.rows[:len(A.rows)]] or A.origin != B.origin:
        return viol("suffix: listing addresses / bytes of the original statements changed." + ctx, fid="C18:suffix:rows", labels=labels)
    symB = dict(B.symbols)
    for name, value in dict(A.symbols).items():
        if symB.get(name) != value:
            return viol("suffix: symbol {} = {} became {}.".format(name, value, symB.get(name)) + ctx, fid="C18:suffix:symbols", labels=labels)
    return ok(labels=labels, nontrivial=True)


def page_zero_pairs():
    """a variable below $100 referred to once in the program and once more, at another width, by an appended statement"""
    ref = {"sym": "VAR", "op": "", "c": 0}
    var = {"lab": "VAR", "k": "fcb", "vals": [{"lit": 7, "sp": "dec"}]}
    for i, first in enumerate(_REF_FORMS):
        for j, second in enumerate(_REF_FORMS):
            for var_first in (True, False):
                body = [dict(first(ref), lab="START"), {"lab": "", "k": "inh", "mn": "RTS"}]
                stmts = [{"lab": "", "k": "org", "addr": 0x0020}] + ([var] + body if var_first else body + [var])
                yield dict(prog={"org": 0x0020, "stmts": stmts}, T=dict(kind="suffix", extra={"org": None, "stmts": []}, refs=[(j, 0)]))


def searches(tier):
    return [("transformations", _case, 16000 if tier == "quick" else 600000)]


def _symbols_of(prog):
    out = []
    for s in prog["stmts"]:
        if s.get("lab") and s["lab"] not in out:
            out.append(s["lab"])
    return out


def _rename(prog, mapping):
    prog = copy.deepcopy(prog)
    for s in prog["stmts"]:
        if s.get("lab"):
            s["lab"] = mapping[s["lab"]]
        if isinstance(s.get("val"), dict) and "sym" in s["val"]:
            s["val"]["sym"] = mapping[s["val"]["sym"]]
        for v in s.get("vals", []):
            if "sym" in v:
                v["sym"] = mapping[v["sym"]]
        if s.get("to"):
            s["to"] = mapping[s["to"]]
    return prog


def transform(case):
    """-> (P lines, T(P) lines, info) or None when T cannot be applied"""
    prog = case["prog"]
    T = case["T"]
    lines = proggen.render(prog)
    if T["kind"] == "shift":
        if prog["org"] is None:
            return None
        size = sum(proggen.size_bounds(s)[1] for s in prog["stmts"])
        o = prog["org"]
        d = T["d"]
        if d == "top":
            # move the program so that its last byte lands exactly on $FFFF (its real length comes from assembling it)
            base = driver.assemble(lines)
            if base.kind != "OK" or not base.image or o < 0x100:
                return None
            # label+c targets (PCR operands, FDB lists) must not pass $FFFF after the move
            if any(isinstance(s.get("val"), dict) and s["val"].get("op") == "+" and s["val"].get("c", 0) > 0 for s in prog["stmts"]) or \
                    any(v.get("op") == "+" for s in prog["stmts"] for v in s.get("vals", [])):
                return None
            # a label on a no-byte statement behind the last byte would name address $10000, which does not exist
            last = max((i for i, s in enumerate(prog["stmts"]) if proggen.size_bounds(s)[1] > 0), default=-1)
            if any(s.get("lab") and s["k"] != "equ" for s in prog["stmts"][last + 1:]):
                return None
            d = 0x10000 - len(base.image) - o
            if d == 0:
                return None
            p2 = copy.deepcopy(prog)
            p2["org"] = o + d
            p2["stmts"][0]["addr"] = o + d
            return lines, proggen.render(p2), dict(d=d, prog2=p2)
        new = o + d
        lo_side = o + size + 16 < 0x100
        if not (0 <= new and new + size + 16 <= 65536) or d == 0:
            return None
        if (o < 0x100) != (new < 0x100) or (o < 0x100 and not (lo_side and new + size + 16 < 0x100)):
            return None
        if any(s["k"] == "pcr" and s["val"].get("op") == "+" and new + size + s["val"]["c"] > 0xFFFF for s in prog["stmts"]):
            return None                                  # a label+c target would pass $FFFF after the move (may be refused)
        # label-c operands must stay >= 0 on both sides: generator already avoids label-c below 16
        p2 = copy.deepcopy(prog)
        p2["org"] = new
        p2["stmts"][0]["addr"] = new
        return lines, proggen.render(p2), dict(d=d, prog2=p2)
    if T["kind"] == "rename":
        syms = _symbols_of(prog)
        # in half of the cases the first new names are ones that merely look like registers, mnemonics or hex numbers
        tricky = ["AB", "BD", "ABD", "XY", "DA", "AH", "BEACH", "PCRX", "CCR", "LDA1", "ORG1", "SP"] if sum(map(len, T["names"][:3])) % 2 else []
        fresh = [n for n in tricky + T["names"] if n.upper() not in _RESERVED and n not in syms]
        fresh = [n for i, n in enumerate(fresh) if n.upper() not in [m.upper() for m in fresh[:i]]]
        if len(fresh) < len(syms) or not syms:
            return None
        mapping = dict(zip(syms, fresh))
        p2 = _rename(prog, mapping)
        return lines, proggen.render(p2), dict(mapping=mapping)
    if T["kind"] == "layout":
        lays = []
        for i, s in enumerate(prog["stmts"]):
            lay = dict(T["layouts"][i % len(T["layouts"])])
            lays.append(lay)
        return lines, proggen.render(prog, lays), dict()
    if T["kind"] == "suffix":
        extra = copy.deepcopy(T["extra"])
        syms = _symbols_of(extra)
        mapping = dict((n, "ZS" + n) for n in syms)
        extra = _rename(extra, mapping)
        tail = []
        for s in extra["stmts"]:
            if s["k"] in ("org", "end", "nam"):
                if s.get("lab"):
                    tail.append({"lab": s["lab"], "k": "inh", "mn": "NOP"})   # keep labels other statements refer to
                continue
            tail.append(s)
        total = sum(proggen.size_bounds(s)[1] for s in prog["stmts"] + tail)
        tail = tail + _ref_tail(prog, T.get("refs"), (prog["org"] or 0) + total + 16 < 0x100)
        if not tail:
            return None
        total = sum(proggen.size_bounds(s)[1] for s in prog["stmts"] + tail)
        if (prog["org"] or 0) + total + 16 > 65536:
            return None                                  # the longer program would not fit below $FFFF
        if any(s["k"] == "pcr" and s["val"].get("op") == "+" and (prog["org"] or 0) + total + s["val"]["c"] > 0xFFFF for s in tail):
            return None                                  # a label+c target of the appended part would pass $FFFF (may be refused)
        p2 = dict(prog, stmts=prog["stmts"] + tail)
        return lines, proggen.render(p2), dict(n_prefix=len(prog["stmts"]))
    return None


def render(case):
    if case.get("inc_suffix"):
        return case["inc_suffix"]
    t = transform(case)
    if t is None:
        return dict(T=case["T"]["kind"], note="not applicable")
    a, b, _ = t
    return dict(T=case["T"]["kind"], P=[l.rstrip("\n") for l in a][:20], TP=[l.rstrip("\n") for l in b][:24])


def _refs(prog):
    """(has absolute label reference, has relative label reference)"""
    labs = set(s["lab"] for s in prog["stmts"] if s.get("lab") and s["k"] != "equ")
    has_abs = has_rel = False
    for s in prog["stmts"]:
        v = s.get("val")
        if s["k"] in ("imm16", "mem", "extind", "idx") and isinstance(v, dict) and v.get("sym") in labs:
            has_abs = True
        if s["k"] == "fdb" and any(x.get("sym") in labs for x in s["vals"]):
            has_abs = True
        if s["k"] == "pcr" or s["k"] == "br":
            has_rel = True
    return has_abs, has_rel


def execute(case):
    if case.get("inc_suffix"):
        return execute_inc_suffix(case)
    t = transform(case)
    kind = case["T"]["kind"]
    labels = ["T:" + kind]
    if t is None:
        return skip("transformation not applicable to this program", labels=labels)
    a_lines, b_lines, info = t
    prog = case["prog"]
    A = driver.assemble(a_lines)
    B = driver.assemble(b_lines)
    if A.kind in ("CRASH", "HANG") or B.kind in ("CRASH", "HANG"):
        return skip("crash/hang: judged by C13", labels=labels)
    if A.kind != B.kind:
        return viol("{}: P is {} ({}) but T(P) is {} ({}); P={!r} T(P)={!r}".format(
            kind, A.kind, A.message, B.kind, B.message, [l.strip() for l in a_lines][:14], [l.strip() for l in b_lines][:14]),
            fid="C18:{}:accept-differs".format(kind), labels=labels)
    has_abs, has_rel = _refs(prog)
    if has_abs and has_rel:
        labels.append("abs_and_rel")
    nontrivial = has_abs and has_rel
    if A.kind == "DIAG":
        return ok(labels=labels + ["both_rejected"], nontrivial=False)
    symA, symB = dict(A.symbols), dict(B.symbols)
    ctx = " P={!r} T(P)={!r}".format([l.strip() for l in a_lines][:16], [l.strip() for l in b_lines][:16])
    if kind == "layout" and case.get("cli") == 0:
        # the same pair as source files through real assembler.py processes: reading the file must not cut lines elsewhere
        labels.append("layout_cli")
        with driver.TempDir() as tmp:
            for name, text in (("p.asm", a_lines), ("t.asm", b_lines)):
                with open(os.path.join(tmp, name), "w", newline="") as fh:
                    fh.write("".join(text))
            ra = driver.run_cli("assembler.py", ["p.asm", "--to_bin", "p.bin"], cwd=tmp)
            rb = driver.run_cli("assembler.py", ["t.asm", "--to_bin", "t.bin"], cwd=tmp)
            pa, pb = os.path.join(tmp, "p.bin"), os.path.join(tmp, "t.bin")
            ba = open(pa, "rb").read() if os.path.exists(pa) else None
            bb = open(pb, "rb").read() if os.path.exists(pb) else None
        if ra.status != rb.status or ba != bb:
            return viol("layout (source files through assembler.py): exit {} / {} bytes for P, exit {} / {} bytes for T(P): {!r}.".format(
                ra.status, None if ba is None else len(ba), rb.status, None if bb is None else len(bb), rb.stdout[-160:]) + ctx,
                fid="C18:layout:cli", labels=labels)
    if kind in ("rename", "layout"):
        if A.image != B.image:
            i = next((i for i, (x, y) in enumerate(zip(A.image, B.image)) if x != y), min(len(A.image), len(B.image)))
            return viol("{}: image differs at offset {} ({} vs {} bytes).".format(kind, i, len(A.image), len(B.image)) + ctx,
                        fid="C18:{}:image".format(kind), labels=labels)
        if [r[0] for r in A.rows] != [r[0] for r in B.rows] or A.origin != B.origin:
            return viol("{}: listing addresses differ.".format(kind) + ctx, fid="C18:{}:addresses".format(kind), labels=labels)
        mapping = info.get("mapping") or dict((k, k) for k in symA)
        for name, value in symA.items():
            if symB.get(mapping[name]) != value:
                return viol("{}: symbol {} = {} became {} = {}.".format(kind, name, value, mapping[name], symB.get(mapping[name])) + ctx,
                            fid="C18:{}:symbols".format(kind), labels=labels)
        if len(symA) != len(symB):
            return viol("{}: symbol tables differ in size.".format(kind) + ctx, fid="C18:{}:symbols".format(kind), labels=labels)
        return ok(labels=labels, nontrivial=nontrivial)
    if kind == "suffix":
        n = info["n_prefix"]
        if B.image[:len(A.image)] != A.image:
            return viol("suffix: the bytes of the original statements changed." + ctx, fid="C18:suffix:image", labels=labels)
        if [(r[0], r[1]) for r in A.rows] != [(r[0], r[1]) for r in B.rows[:n]] or A.origin != B.origin:
            return viol("suffix: listing addresses / bytes of the original statements changed." + ctx, fid="C18:suffix:rows", labels=labels)
        for name, value in symA.items():
            if symB.get(name) != value:
                return viol("suffix: symbol {} = {} became {}.".format(name, value, symB.get(name)) + ctx, fid="C18:suffix:symbols", labels=labels)
        return ok(labels=labels, nontrivial=nontrivial)
    # shift
    d = info["d"]
    stmts = prog["stmts"]
    if len(A.rows) != len(B.rows) or len(A.image) != len(B.image):
        return viol("shift by {}: image / listing sizes differ.".format(d) + ctx, fid="C18:shift:size", labels=labels)
    labs = set(s["lab"] for s in stmts if s.get("lab") and s["k"] != "equ")
    oa, ob = A.origin, B.origin
    if (ob - oa) != d:
        return viol("shift by {}: reported origins {} and {}.".format(d, oa, ob) + ctx, fid="C18:shift:origin", labels=labels)
    for i, s in enumerate(stmts):
        ra, rb = A.rows[i], B.rows[i]
        if s["k"] in ("nam", "end", "equ", "setdp"):
            continue
        if ra[0] is None or rb[0] is None:
            # a statement that emits nothing behind a last byte at $FFFF is listed without an address (its address would
            # be $10000); anything that emits bytes has one
            if proggen.size_bounds(s)[1] > 0:
                return viol("shift by {}: row {} has no address.".format(d, ra[2].strip()[:40]) + ctx, fid="C18:shift:rows", labels=labels)
            continue
        if rb[0] - ra[0] != d:
            return viol("shift by {}: row {} moved by {}.".format(d, ra[2].strip()[:40], rb[0] - ra[0]) + ctx, fid="C18:shift:rows", labels=labels)
        nxt = A.rows[i + 1][0] if i + 1 < len(A.rows) and stmts[i + 1]["k"] not in ("nam", "end", "equ", "setdp") else None
        offa = ra[0] - oa
        if s["k"] in proggen.INSTR_KINDS:
            ia, ib = R.decode(A.image, offa), R.decode(B.image, offa)
            if ia is None or ib is None or ia.length != ib.length or ia.op != ib.op or ia.kind != ib.kind:
                return viol("shift by {}: statement {} decodes differently ({} vs {}).".format(d, ra[2].strip()[:40], ia, ib) + ctx,
                            fid="C18:shift:decode", labels=labels)
            ba, bb = A.image[offa:offa + ia.length], B.image[offa:offa + ia.length]
            v = s.get("val")
            is_abs_label = s["k"] in ("imm16", "mem", "extind", "idx") and isinstance(v, dict) and v.get("sym") in labs
            if is_abs_label:
                va = ia.nf[1] if ia.nf[0] in ("imm", "mem") else ia.nf[3]
                vb = ib.nf[1] if ib.nf[0] in ("imm", "mem") else ib.nf[3]
                if (vb - va) % 65536 != d % 65536 or ba[:-2] != bb[:-2]:
                    return viol("shift by {}: absolute label operand of {} went from ${:04X} to ${:04X}.".format(
                        d, ra[2].strip()[:40], va, vb) + ctx, fid="C18:shift:absolute", labels=labels)
            elif ba != bb:
                return viol("shift by {}: bytes of {} changed from {} to {} although it holds no absolute label reference.".format(
                    d, ra[2].strip()[:40], ba.hex(), bb.hex()) + ctx, fid="C18:shift:bytes", labels=labels)
        elif s["k"] in ("fcb", "fdb", "fcc", "rmb"):
            n = proggen.size_bounds(s)[0]
            ba, bb = A.image[offa:offa + n], B.image[offa:offa + n]
            w = 2 if s["k"] == "fdb" else 1
            for j, v in enumerate(s.get("vals", [None] * 0)):
                ea, eb = int.from_bytes(ba[j * w:j * w + w], "big"), int.from_bytes(bb[j * w:j * w + w], "big")
                want = d if (isinstance(v, dict) and v.get("sym") in labs) else 0
                if (eb - ea) % (1 << (8 * w)) != want % (1 << (8 * w)):
                    return viol("shift by {}: element {} of {} went from ${:X} to ${:X}.".format(d, j, ra[2].strip()[:40], ea, eb) + ctx,
                                fid="C18:shift:data", labels=labels)
            if s["k"] in ("fcc", "rmb") and ba != bb:
                return viol("shift by {}: bytes of {} changed.".format(d, ra[2].strip()[:40]) + ctx, fid="C18:shift:data", labels=labels)
    for name, value in symA.items():
        want = value + d if name in labs else value
        if symB.get(name) != want:
            return viol("shift by {}: symbol {} {} -> {} (expected {}).".format(d, name, value, symB.get(name), want) + ctx,
                        fid="C18:shift:symbols", labels=labels)
    return ok(labels=labels, nontrivial=nontrivial)
