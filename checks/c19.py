"""C19 - INCLUDE is textual inclusion."""
import os

from hypothesis import strategies as st

from vlib import driver, proggen
from vlib.harness import ok, skip, viol

PID = "C19"
RULE = ("A generated program (C02 generator: forward / backward label references, branches, label,PCR, EQU before and "
        "after use, data directives) is rendered to lines and cut at drawn statement boundaries into an including file "
        "and 1-3 included files, either side by side (up to three INCLUDE lines in one file) or nested to depth 3, with file names [a-z]{1,8}.asm (some in a "
        "sub-directory), written into a temp working directory. Oracle: assembling the including file gives exactly "
        "the canonical result (outcome, image, every listing line, symbol table in order, origin, name, diagnostic) of "
        "assembling the spliced text; 1 case in 8 repeats the comparison through real assembler.py processes (--to_bin "
        "bytes, --print --symbols output). A second search includes one label-free file two or three times in a "
        "program (side by side, or once directly and once through another file). Half of the programs carry comments "
        "holding VT, FF, FS, GS, RS, NEL, U+2028 or U+2029 (line ends to str.splitlines, not to a file read line by line). Half of the cut programs carry an END statement that is not the last line (END ends nothing: an included file is read to its last line, like the main file), and the repeated file may hold one. INCLUDE lines are also written in lower case and with a comment after the file name (with or without a blank before the ;). Missing files (including names that run through a regular file, name a directory or are too long for the file system) and inclusion cycles must be diagnostics. Non-trivial = a "
        "label reference crosses a file boundary; distinct by case hash.")
ASSUMPTIONS = [
    "the spliced program is the reference: both sides run the same assembler, the relation is metamorphic",
    "INCLUDE lines carry no label (a label on an INCLUDE line has no defined meaning)",
]
HEALTH = {"crossing_reference": 0.08, "nested": 0.04, "cli": 16, "repeated_include": 200, "include_with_comment": 300,
          "end_inside_include": 60}
EXHAUSTIVE = {}

_FN = ["a", "b", "cc", "defs", "zzzzzzzz", "m", "inc/sub", "inc/deep"]
# characters that some line-splitting routines (str.splitlines) take for line ends although a text file read line by
# line does not: put into comments, they must not make an included file parse differently from the same text inline
_SEPARATORS = ["\x0b", "\x0c", "\x1c", "\x1d", "\x1e", "\x85", "\u2028", "\u2029", "\t"]
_odd = st.lists(st.tuples(st.integers(0, 60), st.sampled_from(_SEPARATORS)), min_size=0, max_size=3)
_case = st.fixed_dictionaries(dict(
    prog=proggen.program, cuts=st.lists(st.integers(0, 60), min_size=4, max_size=7), nested=st.booleans(),
    names=st.permutations(_FN), cli=st.integers(0, 7), odd=st.one_of(st.just([]), _odd),
    empty_at=st.one_of(st.none(), st.none(), st.integers(0, 60)), inc_case=st.integers(0, 5),
    inc_tail=st.integers(0, 11), mid_end=st.one_of(st.none(), st.integers(0, 60))))
# what follows the file name on an INCLUDE line (index 0 and >= len: nothing): a comment is not part of the name
_INC_TAILS = ["", ";note", " ;note", "\t; see b.asm", "   ", " ; INCLUDE other.asm", ";"]


def with_mid_end(lines, at):
    """an END statement that is not the last line (it ends nothing: the statements after it are assembled, in a main
    file and in an included file alike)"""
    if at is None or len(lines) < 2:
        return list(lines)
    first = 1 if " ORG " in lines[0] else 0
    i = first + at % (len(lines) - first)
    return lines[:i] + [" END\n" if at % 2 else " END \n"] + lines[i:]


def with_odd_comments(lines, odd):
    lines = list(lines)
    for at, ch in odd or []:
        i = at % len(lines)
        if ";" not in lines[i] and " FCC " not in lines[i] and lines[i].strip():
            lines[i] = lines[i].rstrip("\n") + " ; see" + ch + " LDA #1 " + ch + "note\n"
    return lines


NEGATIVE = [
    ("missing", {"main.asm": [" ORG $1000\n", " INCLUDE nosuch.asm\n", " NOP \n"]}),
    ("missing-nested", {"main.asm": [" INCLUDE a.asm\n"], "a.asm": [" NOP \n", " INCLUDE gone.asm\n"]}),
    ("self", {"main.asm": [" NOP \n", " INCLUDE main.asm\n"]}),
    ("self-inner", {"main.asm": [" INCLUDE a.asm\n"], "a.asm": [" INCLUDE a.asm\n"]}),
    ("cycle2", {"main.asm": [" INCLUDE a.asm\n"], "a.asm": [" NOP \n", " INCLUDE b.asm\n"], "b.asm": [" INCLUDE a.asm\n"]}),
    ("cycle3", {"main.asm": [" INCLUDE a.asm\n"], "a.asm": [" INCLUDE b.asm\n"], "b.asm": [" INCLUDE c.asm\n"], "c.asm": [" INCLUDE a.asm\n"]}),
    ("cycle-via-main", {"main.asm": [" INCLUDE a.asm\n"], "a.asm": [" INCLUDE main.asm\n"]}),
    ("self-dot-slash", {"main.asm": [" INCLUDE ./a.asm\n"], "a.asm": [" NOP \n", " INCLUDE ./a.asm\n"]}),
    ("cycle2-mixed-spelling", {"main.asm": [" INCLUDE a.asm\n"], "a.asm": [" INCLUDE ./b.asm\n"], "b.asm": [" INCLUDE ./a.asm\n"]}),
    ("cycle-dotdot", {"main.asm": [" INCLUDE inc/../a.asm\n"], "a.asm": [" INCLUDE inc/../a.asm\n"], "inc/x.asm": [" NOP \n"]}),
    ("missing-dot-slash", {"main.asm": [" INCLUDE ./nosuch.asm\n"]}),
    # names that cannot be opened for another reason than "no such file": a path through a regular file, a directory,
    # a name longer than the file system allows - at the top level and from an included file
    ("through-a-file", {"main.asm": [" NOP \n", " INCLUDE a.asm/tail.asm\n"], "a.asm": [" NOP \n"]}),
    ("through-a-file-nested", {"main.asm": [" INCLUDE a.asm\n"], "a.asm": [" NOP \n", " INCLUDE b.asm/x.asm\n"], "b.asm": [" NOP \n"]}),
    ("a-directory", {"main.asm": [" NOP \n", " INCLUDE inc\n"], "inc/x.asm": [" NOP \n"]}),
    ("a-directory-nested", {"main.asm": [" INCLUDE a.asm\n"], "a.asm": [" INCLUDE inc\n"], "inc/x.asm": [" NOP \n"]}),
    ("a-directory-slash", {"main.asm": [" INCLUDE inc/\n"], "inc/x.asm": [" NOP \n"]}),
    ("name-too-long", {"main.asm": [" NOP \n", " INCLUDE " + "x" * 300 + ".asm\n"]}),
    ("name-too-long-nested", {"main.asm": [" INCLUDE a.asm\n"], "a.asm": [" INCLUDE sub/" + "y" * 300 + "\n"], "sub/x.asm": [" NOP \n"]}),
    ("parent-directory", {"main.asm": [" INCLUDE ..\n"]}),
]


# a label-free file included more than once (INCLUDE as a poor man's macro): siblings, or once directly and once
# through another file (diamond)
_MACRO_POOL = [" NOP \n", " LDA #1\n", " STA $0400\n", " LDA ,X+\n", " LEAX 1,X\n", " LEAY 100,Y\n", " PSHS A,B\n", " FCB 1,2,3\n",
               " FDB $1234\n", " LDB <$10\n", " JSR $A30A\n", " RMB 2\n", " FCC /hi/\n", " LDD [$2000]\n", " CMPX #$00FF\n", " END\n"]
_repeat = st.fixed_dictionaries(dict(
    prog=proggen.small_program, at=st.lists(st.integers(0, 40), min_size=2, max_size=3),
    macro=st.lists(st.integers(0, len(_MACRO_POOL) - 1), min_size=1, max_size=4), diamond=st.booleans(),
    names=st.permutations(_FN), cli=st.integers(0, 7), rep=st.just(True)))


def build_repeat(case):
    """-> (flat lines, files, main)"""
    lines = proggen.render(case["prog"])
    macro = [_MACRO_POOL[i] for i in case["macro"]]
    first = 1 if lines and " ORG " in lines[0] else 0
    at = sorted(first + a % (len(lines) - first + 1) for a in case["at"])
    mname, wname = case["names"][0] + ".asm", case["names"][1] + ".asm"
    flat, main = [], []
    prev = 0
    for k, a in enumerate(at):
        flat += lines[prev:a] + macro
        main += lines[prev:a] + [" INCLUDE {}\n".format(wname if case["diamond"] and k == len(at) - 1 else mname)]
        prev = a
    flat += lines[prev:]
    main += lines[prev:]
    files = {"main.asm": main, mname: macro}
    if case["diamond"]:
        files[wname] = [" INCLUDE {}\n".format(mname)]
    return flat, files, "main.asm"


def enumerated(tier, seed):
    for name, files in NEGATIVE:
        yield dict(neg=name, files=files)


def searches(tier):
    return [("splits", _case, 2400 if tier == "quick" else 100000), ("repeated", _repeat, 800 if tier == "quick" else 30000)]


def split(lines, cuts, nested, names):
    """-> (files dict name -> lines, main name).  Textual replacement only."""
    n = len(lines)
    pts = sorted(set(c % (n + 1) for c in cuts))
    if len(pts) < 2:
        pts = [0, n]
    files = {}
    names = [x + ".asm" for x in names]
    if not nested:
        main = []
        prev = 0
        k = 0
        segs = list(zip(pts, pts[1:]))[:5]        # up to three sibling INCLUDE lines in the main file
        for i, (a, b) in enumerate(segs):
            main += lines[prev:a]
            if i % 2 == 0 and a < b and k < 3:
                files[names[k]] = lines[a:b]
                main.append(" INCLUDE {}\n".format(names[k]))
                k += 1
            else:
                main += lines[a:b]
            prev = b
        main += lines[prev:]
        files["main.asm"] = main
        return files, "main.asm"
    # nested: [p0, p_last) contains [p1, p_{last-1}) contains ...
    pairs = []
    lo, hi = 0, len(pts) - 1
    while lo < hi and len(pairs) < 3:
        pairs.append((pts[lo], pts[hi]))
        lo += 1
        hi -= 1

    def build(level, a, b):
        """lines of the file holding lines[a:b] at this nesting level"""
        if level >= len(pairs):
            return lines[a:b]
        ia, ib = pairs[level]
        ia, ib = max(a, ia), min(b, ib)
        if ia >= ib:
            return lines[a:b]
        name = names[level]
        files[name] = build(level + 1, ia, ib)
        return lines[a:ia] + [" INCLUDE {}\n".format(name)] + lines[ib:b]

    files["main.asm"] = build(0, 0, n)
    return files, "main.asm"


def render(case):
    if "neg" in case:
        return case
    if case.get("rep"):
        flat, files, main = build_repeat(case)
        return dict(repeated=True, files=dict((k, [l.rstrip("\n") for l in v][:15]) for k, v in files.items()))
    lines = with_mid_end(with_odd_comments(proggen.render(case["prog"]), case.get("odd")), case.get("mid_end"))
    files, main = split(lines, case["cuts"], case["nested"], case["names"])
    return dict(nested=case["nested"], files=dict((k, [l.rstrip("\n") for l in v][:15]) for k, v in files.items()))


def _crossing(prog, files):
    """does some label reference cross a file boundary?"""
    where = {}
    for fname, flines in files.items():
        for l in flines:
            lab = l.split(" ")[0]
            if lab:
                where[lab] = fname
    for fname, flines in files.items():
        for l in flines:
            parts = l.split()
            ops = parts[-1] if parts else ""
            for lab, home in where.items():
                if home != fname and lab in ops and not l.startswith(lab + " "):
                    return True
    return False


def execute_negative(case):
    labels = ["negative"]
    with driver.TempDir() as tmp:
        for name, flines in case["files"].items():
            os.makedirs(os.path.dirname(os.path.join(tmp, name)), exist_ok=True)
            with open(os.path.join(tmp, name), "w", newline="") as fh:
                fh.write("".join(flines))
        out = driver.assemble(list(case["files"]["main.asm"]), cwd=tmp)
        res = driver.run_cli("assembler.py", ["main.asm", "--to_bin", "o.bin"], cwd=tmp)
        made = os.path.exists(os.path.join(tmp, "o.bin"))
    if out.kind != "DIAG":
        return viol("{}: expected a diagnostic, got {} {} {}".format(case["neg"], out.kind, out.exc, out.message),
                    fid="C19:neg-not-diagnostic:" + out.kind, labels=labels)
    if res.status == 0 or "Traceback" in res.stderr or made:
        return viol("{}: assembler.py exit {} traceback={} output={}".format(case["neg"], res.status, "Traceback" in res.stderr, made),
                    fid="C19:neg-cli", labels=labels)
    return ok(labels=labels, nontrivial=True)


def execute(case):
    if "neg" in case:
        return execute_negative(case)
    labels = []
    if case.get("rep"):
        lines, files, main = build_repeat(case)
        labels.append("repeated_include")
        crossing = True
    else:
        lines = with_mid_end(with_odd_comments(proggen.render(case["prog"]), case.get("odd")), case.get("mid_end"))
        if case.get("odd"):
            labels.append("separator_in_comment")
        files, main = split(lines, case["cuts"], case["nested"], case["names"])
        if any(k != main and any(l.strip() == "END" for l in v[:-1]) for k, v in files.items()):
            labels.append("end_inside_include")
        if case.get("inc_case", 0) in (1, 2):
            # the directive spelled include / Include (mnemonics are accepted in any letter case), in every file
            word = " include " if case["inc_case"] == 1 else " Include "
            files = dict((k, [l.replace(" INCLUDE ", word) if l.startswith(" INCLUDE ") else l for l in v]) for k, v in files.items())
            labels.append("include_lower_case")
        tail = _INC_TAILS[case["inc_tail"]] if 0 < case.get("inc_tail", 0) < len(_INC_TAILS) else ""
        if tail:
            files = dict((k, [l[:-1] + tail + "\n" if l.upper().startswith(" INCLUDE ") else l for l in v]) for k, v in files.items())
            labels.append("include_with_comment")
        if case.get("empty_at") is not None:
            # two cuts on one boundary: an included file that holds nothing (zero bytes), in a file picked by the draw
            host = sorted(files)[case["empty_at"] % len(files)]
            at = case["empty_at"] % (len(files[host]) + 1)
            if not (host == main and at == 0 and lines and " ORG " in lines[0]):
                files[host] = files[host][:at] + [" INCLUDE nothing.asm\n"] + files[host][at:]
                files["nothing.asm"] = []
                labels.append("empty_include")
        if len(files) < 2:
            return skip("no include file produced by these cuts", labels=labels)
        if case["nested"] and len(files) >= 3:
            labels.append("nested")
        crossing = _crossing(case["prog"], files)
    if crossing:
        labels.append("crossing_reference")
    with driver.TempDir() as tmp:
        for name, flines in files.items():
            path = os.path.join(tmp, name)
            os.makedirs(os.path.dirname(path), exist_ok=True)
            with open(path, "w", newline="") as fh:
                fh.write("".join(flines))
        with open(os.path.join(tmp, "spliced.asm"), "w", newline="") as fh:
            fh.write("".join(lines))
        ref = driver.assemble(list(lines), cwd=tmp)
        got = driver.assemble(list(files[main]), cwd=tmp)
        if driver.canonical(ref) != driver.canonical(got):
            return viol("including file assembles differently from the spliced text: {!r} vs {!r}; files={!r}".format(
                _short(driver.canonical(got)), _short(driver.canonical(ref)),
                dict((k, [l.strip() for l in v][:12]) for k, v in files.items())), fid="C19:api-differs:" + got.kind + "/" + ref.kind, labels=labels)
        if case["cli"] == 0:
            labels.append("cli")
            a = driver.run_cli("assembler.py", [main, "--print", "--symbols", "--to_bin", "inc.bin"], cwd=tmp)
            b = driver.run_cli("assembler.py", ["spliced.asm", "--print", "--symbols", "--to_bin", "spl.bin"], cwd=tmp)
            if "Traceback" in a.stderr or a.status != b.status or a.stdout != b.stdout:
                return viol("assembler.py output differs between the including file and the spliced text: exit {} vs {}; {!r}".format(
                    a.status, b.status, (a.stderr or a.stdout)[-300:]), fid="C19:cli-differs", labels=labels)
            pa, pb = os.path.join(tmp, "inc.bin"), os.path.join(tmp, "spl.bin")
            if os.path.exists(pa) != os.path.exists(pb) or (os.path.exists(pa) and open(pa, "rb").read() != open(pb, "rb").read()):
                return viol("--to_bin output differs between the including file and the spliced text", fid="C19:cli-bin", labels=labels)
    return ok(labels=labels, nontrivial=crossing)


def _short(canon):
    return repr(canon)[:240]
