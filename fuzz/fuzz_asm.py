"""Coverage-guided fuzzing (atheris / libFuzzer) of the assembler with the C12 / C13 oracles inside the target.

Started by vlib/harness.py in the thorough tier of C12 and C13 (one process per shard):
  FUZZ_PID=C12|C13 FUZZ_OUT=<dir> python -B fuzz/fuzz_asm.py <corpus dir> -max_total_time=T -seed=N ...
Bytes are decoded into structured arguments (mnemonic index, label / context choices, operand string over the
operand alphabet), so the fuzzer reaches the operand logic instead of dying in the line regex.  The semantic
oracle is the check's own execute(); a violation that is not a listed open finding is written as a replay file
and ends the campaign.  A campaign that ends by its time budget is inconclusive, never a violation.
"""
import json
import os
import sys

VERIF = os.path.dirname(os.path.dirname(os.path.abspath(__file__)))
sys.path.insert(0, os.path.join(VERIF, ".deps"))
sys.path.insert(0, VERIF)
import atheris  # noqa: E402

from vlib import harness  # noqa: E402
harness.setup_paths()
with atheris.instrument_imports(include=["cocoasm"]):
    import cocoasm.program  # noqa: E402,F401
    import cocoasm.statement  # noqa: E402,F401
    import cocoasm.operands  # noqa: E402,F401
    import cocoasm.values  # noqa: E402,F401
from checks import c12, c13  # noqa: E402

PID = os.environ.get("FUZZ_PID", "C12")
OUT = os.environ.get("FUZZ_OUT", ".")
SHARD = os.environ.get("FUZZ_SHARD", "0")
MOD = c12 if PID == "C12" else c13
STATS = {"execs": 0, "nontrivial": 0, "accepted": 0, "known": 0, "violations": 0, "samples": []}
SEEN = set()
HEADS = [[], [" ORG $1000\n"], [" ORG $FFF0\n"], [" ORG $FFFF\n"], [" ORG 0\n"]]
DEFS = [[], ["L0 NOP \n"], ["L0 NOP \n", "L1 RMB 3\n"], ["L0 RMB 300\n", "L1 NOP \n"], ["E0 EQU 5\n", "L0 NOP \n"], ["E0 EQU -1\n"]]
ALL_MN = c13.MNEMONICS


def operand(fdp, n):
    return "".join(c12.ALPHABET[b % len(c12.ALPHABET)] for b in fdp.ConsumeBytes(n))


def decode(data):
    fdp = atheris.FuzzedDataProvider(data)
    if PID == "C12":
        mn = c12.R.MNEMONICS[fdp.ConsumeIntInRange(0, len(c12.R.MNEMONICS) - 1)]
        base = fdp.ConsumeIntInRange(0, len(c12.VALID))          # 0 = free string, else mutate a valid operand
        if base:
            text = c12._mutate(c12.VALID[base - 1], fdp.ConsumeIntInRange(0, 6), fdp.ConsumeIntInRange(0, 30),
                               c12.ALPHABET[fdp.ConsumeIntInRange(0, len(c12.ALPHABET) - 1)], fdp.ConsumeIntInRange(0, 30),
                               c12.ALPHABET[fdp.ConsumeIntInRange(0, len(c12.ALPHABET) - 1)], fdp.ConsumeBool())
        else:
            text = operand(fdp, fdp.ConsumeIntInRange(0, 16))
        return dict(mn=mn, op=text, cls="fuzz")
    head = HEADS[fdp.ConsumeIntInRange(0, len(HEADS) - 1)]
    defs = DEFS[fdp.ConsumeIntInRange(0, len(DEFS) - 1)]
    lines = []
    for _ in range(fdp.ConsumeIntInRange(1, 2)):
        lab = c13.LABELS[fdp.ConsumeIntInRange(0, len(c13.LABELS) - 1)]
        mn = ALL_MN[fdp.ConsumeIntInRange(0, len(ALL_MN) - 1)]
        pick = fdp.ConsumeIntInRange(0, len(c13.OPERANDS))
        op = c13.OPERANDS[pick - 1] if pick else operand(fdp, fdp.ConsumeIntInRange(0, 12))
        lines.append(c13._mk_line(lab, mn, op, None, fdp.ConsumeIntInRange(0, 11)))
    first = fdp.ConsumeBool()
    return dict(kind="lines", cls="tokens", lines=list(head) + (list(defs) + lines if first else lines + list(defs)))


def flush():
    with open(os.path.join(OUT, "fuzz_{}_{}.json".format(PID, SHARD)), "w") as fh:
        json.dump(STATS, fh)


def TestOneInput(data):
    case = decode(data)
    v = MOD.execute(case)
    STATS["execs"] += 1
    if v.nontrivial:
        h = harness.case_hash(case)
        if h not in SEEN:
            SEEN.add(h)
            STATS["nontrivial"] = len(SEEN)
    if "accepted" in v.labels or "outcome:OK" in v.labels:
        STATS["accepted"] += 1
    if len(STATS["samples"]) < 3 and v.nontrivial:
        STATS["samples"].append(MOD.render(case))
    if v.status == "viol":
        if harness.finding_open(v.fid, PID):
            STATS["known"] += 1
        else:
            STATS["violations"] += 1
            STATS["replay"] = harness.write_replay(PID, case, v.detail, v.fid)
            STATS["detail"] = v.detail
            flush()
            raise RuntimeError("VIOLATION " + v.detail)
    if STATS["execs"] % 2000 == 0:
        flush()


if __name__ == "__main__":
    atheris.Setup(sys.argv, TestOneInput)
    flush()
    atheris.Fuzz()
