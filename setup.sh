#!/bin/bash
# MANIFEST.setup_cmd: offline, idempotent.  Makes sure /venv can import hypothesis (installs it from the
# local wheelhouse when missing) and creates the run-time directories.  Nothing is fetched.
cd "$(dirname "$(readlink -f "$0")")" || exit 2
export PIP_NO_INDEX=1
PY=/venv/bin/python
if ! "$PY" -c 'import hypothesis' 2>/dev/null; then
  /venv/bin/pip install --no-index --find-links /opt/veriftools/wheels hypothesis || exit 2
fi
mkdir -p evidence replays .deps
if ! PYTHONPATH=.deps "$PY" -c "import atheris" 2>/dev/null; then
  /venv/bin/pip install --no-index --find-links /opt/veriftools/wheels --target .deps atheris >/dev/null 2>&1 || echo "setup: atheris not installable, thorough-tier fuzz campaigns will be skipped"
fi
"$PY" -B -c 'import hypothesis, sys; sys.path.insert(0, "/repo"); import cocoasm.program; print("setup ok: hypothesis", hypothesis.__version__)'
