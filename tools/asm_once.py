"""Assemble the JSON list of lines given on stdin with a fresh interpreter; print the canonical outcome as JSON.
Used by C17 (fresh-process / hash-seed runs).  usage: python -B tools/asm_once.py   (VERIF_REPO selects the tree)"""
import json
import os
import sys

HERE = os.path.dirname(os.path.dirname(os.path.abspath(__file__)))
sys.path.insert(0, HERE)
from vlib import harness  # noqa: E402
harness.setup_paths()
from vlib import driver  # noqa: E402

lines = json.load(sys.stdin)
out = driver.assemble(lines)
canon = driver.canonical(out)
print(json.dumps([c.hex() if isinstance(c, bytes) else c for c in canon], default=str))
