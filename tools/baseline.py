#!/venv/bin/python
"""Run the repository's pinned test suite and compare with BASELINE.json's stable_pass list.
usage: tools/baseline.py [repo_dir]   (exit 0 iff every stable_pass test passed)"""
import json, subprocess, sys, tempfile, os, xml.etree.ElementTree as ET
repo = sys.argv[1] if len(sys.argv) > 1 else "/repo"
base = json.load(open("/root/.vp/BASELINE.json"))
with tempfile.TemporaryDirectory() as d:
    x = os.path.join(d, "j.xml")
    env = dict(os.environ, PYTHONDONTWRITEBYTECODE="1")
    env.pop("COCOASM_VERIF", None)
    subprocess.run(["/venv/bin/python", "-m", "pytest", "-q", "-p", "no:cacheprovider", "--timeout=900",
                    "--continue-on-collection-errors", "--junitxml=" + x], cwd=repo, env=env,
                   stdout=subprocess.DEVNULL, stderr=subprocess.DEVNULL)
    passed = set()
    for tc in ET.parse(x).getroot().iter("testcase"):
        if not any(c.tag in ("failure", "error", "skipped") for c in tc):
            passed.add("{}::{}".format(tc.get("classname"), tc.get("name")))
want = set(base["stable_pass"])
missing = sorted(want - passed)
print("stable_pass {} passed-now {} missing {}".format(len(want), len(passed & want), len(missing)))
for m in missing[:20]:
    print("  MISSING", m)
sys.exit(1 if missing else 0)
