#!/venv/bin/python
"""tools/census.py <ID> [tier] [limit]: run a check's enumerated cases, tally failure signatures (development aid)."""
import sys, os, collections, itertools, multiprocessing, importlib, json
sys.path.insert(0, os.path.dirname(os.path.dirname(os.path.abspath(__file__))))
from vlib import harness
harness.setup_paths()
pid = sys.argv[1].upper(); tier = sys.argv[2] if len(sys.argv) > 2 else "quick"
limit = int(sys.argv[3]) if len(sys.argv) > 3 else None
def work(shard):
    mod = importlib.import_module("checks." + pid.lower())
    tally = collections.Counter(); ex = {}; n = 0
    for case in itertools.islice(mod.enumerated(tier, 1), shard, limit, 16):
        v = mod.execute(case); n += 1
        key = v.fid if v.status == "viol" else v.status
        tally[key] += 1
        if key not in ex: ex[key] = (case, v.detail)
    return n, tally, ex
if __name__ == "__main__":
    with multiprocessing.Pool(16) as pool:
        res = pool.map(work, range(16))
    total = sum(r[0] for r in res); tally = collections.Counter(); ex = {}
    for n, t, e in res:
        tally.update(t)
        for k, val in e.items(): ex.setdefault(k, val)
    print("cases", total)
    for k, c in tally.most_common():
        print("{:7d} {}".format(c, k))
        if k not in ("ok",):
            print("          e.g.", json.dumps(ex[k][0])[:200]); print("          ", ex[k][1][:300])
