#!/venv/bin/python
"""Generates /verif/MANIFEST.json from the table below (only properties whose check module exists are claimed)."""
import json
import os

VERIF = os.path.dirname(os.path.dirname(os.path.abspath(__file__)))

T = {
    "C01": ("finite grid enumeration + Hypothesis search; oracle = independent MC6809 decoder (differential)",
            "Every (mnemonic, operand form) of the README grammar x a boundary grid of values x spellings x value source is enumerated and assembled as a one-instruction program; the emitted bytes are decoded by an independent datasheet decoder and compared with the source-level meaning. Exploration: no counter-example among the enumerated grid and the generated cases.",
            "trusted: vlib/ref6809.py (opcode map + post-byte decoder written from the MC6809 datasheet), assumed direct page 0"),
    "C02": ("Hypothesis program generation; oracle = independent layout walk using the reference decoder",
            "Generated multi-statement programs are assembled; an independent walk recomputes every listing address, label value and the image concatenation from decoded instruction lengths and the data-directive model.",
            "trusted: vlib/ref6809.py and the data directive model; programs are drawn from the sub-language whose single statements C01/C05 show healthy"),
    "C03": ("exhaustive distance sweep + Hypothesis nesting search; oracle = decoded displacement reaches symbol address",
            "Every short/long branch and label,PCR form is assembled at every distance in windows around the 8- and 16-bit limits (both directions, 1- and 2-byte opcodes, +-k constants, nested PCR statements); the decoded displacement must reach the label, out-of-range short branches must be diagnosed.",
            "trusted: vlib/ref6809.py; label addresses are taken from the tool's own symbol table (C02 checks those)"),
    "C04": ("grid + Hypothesis over expression positions; oracle = Python integer arithmetic reference",
            "Two-term expressions and single symbols in every operand position are evaluated by a reference evaluator and compared with the value decoded from the image; metamorphic re-spelling / definition-order checks.",
            "trusted: reference evaluator, vlib/ref6809.py"),
    "C05": ("Hypothesis + boundary enumeration; oracle = byte-exact data directive model",
            "FCB/FDB/FCC/RMB and the no-byte directives are generated with lists, spellings, delimiters and lengths per the property; emitted bytes and reserved size are compared with an independent model.",
            "trusted: the directive model in checks/c05.py"),
    "C06": ("Hypothesis round trip + differential against independent tape reader/writer",
            "Generated file lists are written and re-listed through the tool (round trip), the tool's reader is run on tapes produced by an independent variant writer (arbitrary leaders, gaps, block sizes), and compared with the independent parser.",
            "trusted: vlib/casref.py"),
    "C07": ("Hypothesis round trip + differential against independent Disk BASIC reader/writer",
            "Generated file lists (boundary lengths, all kinds, default and permuted fill orders) are written and re-listed through the tool; independently written images with arbitrary non-adjacent chains are listed by the tool and compared.",
            "trusted: vlib/dskref.py"),
    "C08": ("Hypothesis histories; oracle = independent fsck (validity predicate)",
            "After every add_file on generated histories an independent Disk BASIC fsck validates chains, FAT, implied lengths, ML header/trailer in chain order and that no byte outside allocated areas changed.",
            "trusted: vlib/dskref.py fsck"),
    "C09": ("model-based history generation (add / save / re-open); oracle = list model + independent readers",
            "Generated histories of additions, saves and re-opens on cassette and disk host files are compared after every step with a list model through both the tool's and the independent readers; kind sniffing is compared with the kind written.",
            "trusted: vlib/casref.py, vlib/dskref.py"),
    "C10": ("exhaustive decision matrix x Hypothesis contents, real subprocesses; oracle = permission model + independent readers",
            "Every cell of tool x switch x append x pre-existing-target-kind is run as a real process with generated contents; bytes must be unchanged unless append applies, and written files must be complete images.",
            "trusted: vlib/casref.py, vlib/dskref.py kind classification"),
    "C11": ("Hypothesis programs through the CLI; oracle = in-process image + independent container readers",
            "Generated programs are assembled by a real assembler.py process with every output switch combination; outputs are read by the independent readers and compared with the in-process image, origin and name.",
            "trusted: vlib/casref.py, vlib/dskref.py; the in-process Program result (checked by C01-C05)"),
    "C12": ("Hypothesis/grammar mutation + coverage-guided fuzzing (atheris, thorough); oracle = decoder validity predicate",
            "Arbitrary operand strings per mnemonic; whenever the statement is accepted the bytes must decode as exactly one instruction of that mnemonic with the reserved size; invalid-by-construction classes must be diagnosed.",
            "trusted: vlib/ref6809.py"),
    "C13": ("Hypothesis + mutation + structured stress programs; oracle = outcome-class predicate with no-progress detector",
            "Valid programs, single-line mutations, random lines, PCR distance sweeps and INCLUDE graphs; every run must end OK or with a Parse/Translation diagnostic; CLI runs must exit non-zero without traceback or outputs.",
            "hang = proven state repetition of the size fix-point loop or a 1000x watchdog"),
    "C14": ("Hypothesis + exhaustive length sweep; oracle = independent strict tape grammar",
            "Every generated file list is written by the tool and parsed by a strict independent grammar (framing, lengths, checksums, name block fields, payload concatenation).",
            "trusted: vlib/casref.py"),
    "C15": ("model-based histories to full disk; oracle = free-granule/slot accounting model",
            "Histories of additions take images from empty to full under default and permuted fill orders; every add must use exactly the model's granule count from the free set, refusals must leave the host file unchanged.",
            "trusted: the accounting model and vlib/dskref.py"),
    "C16": ("Hypothesis over source images, selections and conversion chains via real subprocesses; oracle = independent readers",
            "file_util.py conversions with --files subsets in all cases and cas->dsk->cas / dsk->cas->dsk chains; targets are read independently and compared with the selected source files.",
            "trusted: vlib/casref.py, vlib/dskref.py"),
    "C17": ("metamorphic: same source under different histories, processes and hash seeds",
            "A program is assembled alone, after generated histories of other (accepted, rejected, crashing) programs, twice in a row and in fresh processes under different PYTHONHASHSEED values; all results must be identical and the input list untouched.",
            "results compared byte for byte; no reference model needed"),
    "C18": ("metamorphic relations (shift, rename, layout, comment, case, suffix) over generated programs",
            "Generated healthy programs and a drawn transformation; images are decoded in lock-step and compared as the property prescribes.",
            "trusted: vlib/ref6809.py for lock-step decoding"),
    "C19": ("metamorphic: include-split vs spliced program, API and CLI",
            "Generated programs are cut into including/included files (nesting to depth 3) in a temp cwd and must assemble identically to the spliced text; missing files and cycles must be diagnostics.",
            "results compared byte for byte"),
}


def main():
    checks = []
    na = []
    for pid in sorted(T):
        technique, text, note = T[pid]
        if not os.path.exists(os.path.join(VERIF, "checks", pid.lower() + ".py")):
            na.append({"property_id": pid, "reason": "check not built yet (property-based testing applies; see DESIGN.md section 5)"})
            continue
        checks.append({
            "property_id": pid,
            "quick_cmd": "./check {} --tier quick".format(pid),
            "thorough_cmd": "./check {} --tier thorough".format(pid),
            "evidence_file": "evidence/{}.json".format(pid),
            "replay_cmd_template": "./check %s --replay {path}" % pid,
            "engine": "pbt",
            "level_claimed": {"category": "exploration", "text": text, "design_ref": "DESIGN.md section 5, " + pid},
            "level_note": note,
            "technique": technique,
        })
    manifest = {
        "version": 1,
        "setup_cmd": "./setup.sh",
        "hooks": {
            "guard": "COCOASM_VERIF",
            "enable": "no source hooks are needed: checks import /repo's working tree directly (VERIF_REPO overrides the path) and observe it through its public API and CLIs; ./check exports COCOASM_VERIF=1 but nothing in /repo reads it",
            "baseline_off_cmd": "cd /repo && /venv/bin/python -m pytest -q -p no:cacheprovider --timeout=900",
            "source_commits": [],
            "add_only": True,
        },
        "engines": [{
            "name": "pbt",
            "path": "vlib/harness.py",
            "serves_properties": [c["property_id"] for c in checks],
            "kind_free_text": "Hypothesis 6.168 searches and finite enumerations sharded over 16 processes, explicit oracles (independent reference models in vlib/), shrinking to replay files",
        }],
        "checks": checks,
        "notes": "All checks: ./check <ID> --tier quick|thorough ; replay: ./check <ID> --replay <file>. Known findings in known_findings.json.",
        "not_applicable": na,
    }
    with open(os.path.join(VERIF, "MANIFEST.json"), "w") as fh:
        json.dump(manifest, fh, indent=1)
        fh.write("\n")
    print("claimed:", [c["property_id"] for c in checks])


if __name__ == "__main__":
    main()
