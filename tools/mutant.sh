#!/bin/bash
# tools/mutant.sh <patch-file|-e 'sed-expr' file> -- <check ids...>
# Applies a change to a scratch copy of /repo (never to /repo), runs the quick checks against it with
# VERIF_REPO, prints each exit status, removes the copy.  Evidence goes to a scratch dir.
set -u
D=$(mktemp -d /tmp/mut.XXXXXX)
cp -r /repo/cocoasm /repo/assembler.py /repo/file_util.py "$D"/
find "$D" -name __pycache__ -prune -exec rm -rf {} +
if [ "$1" = "-e" ]; then
  sed -i -E "$2" "$D/$3" ; shift 3
else
  (cd "$D" && patch -p1 -s < "$1") || { echo "patch failed"; rm -rf "$D"; exit 3; }
  shift
fi
[ "$1" = "--" ] && shift
diff -ru /repo/cocoasm "$D/cocoasm" -x __pycache__ | head -40
TIER=${TIER:-quick}
for id in "$@"; do
  VERIF_REPO="$D" VERIF_EVIDENCE_DIR="$D/ev" /verif/check "$id" --tier "$TIER" > "$D/out.$id" 2>&1
  rc=$?
  echo "== $id exit=$rc : $(grep -m1 -E 'VIOLATION|HARNESS' "$D/out.$id") | $(grep -m1 detail: "$D/out.$id" | cut -c1-200)"
done
rm -rf "$D"
