#!/venv/bin/python
"""Systematic sensitivity measurement: first-order mutants of the repository source, sampled deterministically.

usage: tools/mutate.py <count> [--seed N] [--files a.py,b.py] [--out results.jsonl] [--skip K]

For every sampled mutant (one operator / constant change in one file, applied to a scratch copy outside /repo):
  1. the repository's own suite is run on the copy; a mutant the suite kills is of no interest (status "suite");
  2. otherwise the quick checks that watch the mutated file are run against the copy (VERIF_REPO), cheapest first,
     until one reports a VIOLATION (status "caught", with the check's id) - if none does, the mutant "survives" and
     is either behaviour-preserving or a gap; a check that exits 2 is recorded as "harness-error".
One JSON line per mutant is appended to the output file.  Nothing is written to /repo; the copy is removed.
"""
import ast
import copy
import json
import os
import random
import shutil
import subprocess
import sys
import tempfile
import time

REPO = "/repo"
VERIF = os.path.dirname(os.path.dirname(os.path.abspath(__file__)))
ASM = ["C01", "C12", "C05", "C04", "C03", "C02", "C13", "C18", "C19", "C11", "C17"]
FILES = {
    "cocoasm/values.py": ASM, "cocoasm/operands.py": ASM, "cocoasm/statement.py": ASM, "cocoasm/program.py": ASM,
    "cocoasm/instruction.py": ["C01", "C12", "C02", "C13"],
    "cocoasm/virtualfiles/cassette.py": ["C14", "C06", "C09", "C16", "C11", "C10"],
    "cocoasm/virtualfiles/disk.py": ["C08", "C07", "C15", "C09", "C16", "C11", "C10"],
    "cocoasm/virtualfiles/virtual_file.py": ["C10", "C09", "C16", "C11", "C15"],
    "cocoasm/virtualfiles/source_file.py": ["C10", "C11", "C16", "C09", "C13"],
    "cocoasm/virtualfiles/coco_file.py": ["C06", "C07", "C16", "C11"],
    "assembler.py": ["C11", "C10", "C13"], "file_util.py": ["C16", "C10"],
}
CMP = {ast.Lt: ast.LtE, ast.LtE: ast.Lt, ast.Gt: ast.GtE, ast.GtE: ast.Gt, ast.Eq: ast.NotEq, ast.NotEq: ast.Eq,
       ast.In: ast.NotIn, ast.NotIn: ast.In, ast.Is: ast.IsNot, ast.IsNot: ast.Is}
BIN = {ast.Add: ast.Sub, ast.Sub: ast.Add, ast.Mult: ast.FloorDiv, ast.FloorDiv: ast.Mult, ast.BitAnd: ast.BitOr,
       ast.BitOr: ast.BitAnd, ast.LShift: ast.RShift, ast.RShift: ast.LShift, ast.Mod: ast.FloorDiv}


def sites(tree):
    """list of (node id in walk order, kind, description) for every mutable place"""
    out = []
    for idx, node in enumerate(ast.walk(tree)):
        if isinstance(node, ast.Compare):
            for k, op in enumerate(node.ops):
                if type(op) in CMP:
                    out.append((idx, "cmp", k))
        elif isinstance(node, ast.BinOp) and type(node.op) in BIN:
            if not (isinstance(node.op, ast.Mod) and isinstance(node.left, ast.Constant) and isinstance(node.left.value, str)):
                out.append((idx, "bin", 0))
        elif isinstance(node, ast.BoolOp):
            out.append((idx, "bool", 0))
        elif isinstance(node, ast.UnaryOp) and isinstance(node.op, ast.Not):
            out.append((idx, "not", 0))
        elif isinstance(node, ast.Constant) and isinstance(node.value, int) and not isinstance(node.value, bool):
            out.append((idx, "const+1", 0))
            if node.value > 1:
                out.append((idx, "const-1", 0))
        elif isinstance(node, ast.Constant) and isinstance(node.value, bool):
            out.append((idx, "flip", 0))
        elif isinstance(node, ast.AugAssign) and type(node.op) in BIN:
            out.append((idx, "aug", 0))
    return out


def mutate(source, site):
    tree = ast.parse(source)
    idx, kind, k = site
    node = list(ast.walk(tree))[idx]
    line = getattr(node, "lineno", 0)
    before = ast.unparse(node)
    if kind == "cmp":
        node.ops[k] = CMP[type(node.ops[k])]()
    elif kind in ("bin", "aug"):
        node.op = BIN[type(node.op)]()
    elif kind == "bool":
        node.op = ast.Or() if isinstance(node.op, ast.And) else ast.And()
    elif kind == "not":
        node.op = ast.UAdd()
        repl = node.operand
        for parent in ast.walk(tree):
            for field, value in ast.iter_fields(parent):
                if value is node:
                    setattr(parent, field, repl)
                elif isinstance(value, list) and node in value:
                    value[value.index(node)] = repl
    elif kind == "const+1":
        node.value = node.value + 1
    elif kind == "const-1":
        node.value = node.value - 1
    elif kind == "flip":
        node.value = not node.value
    after = ast.unparse(node) if kind != "not" else ast.unparse(repl)
    return ast.unparse(ast.fix_missing_locations(tree)) + "\n", line, before, after


def in_docstring_or_trivial(source, site):
    return False


def run(cmd, **kw):
    return subprocess.run(cmd, stdout=subprocess.PIPE, stderr=subprocess.STDOUT, **kw)


def main():
    args = sys.argv[1:]
    count = int(args[0])
    seed = int(args[args.index("--seed") + 1]) if "--seed" in args else 1
    skip = int(args[args.index("--skip") + 1]) if "--skip" in args else 0
    out_path = args[args.index("--out") + 1] if "--out" in args else os.path.join(VERIF, "mutation", "results.jsonl")
    files = args[args.index("--files") + 1].split(",") if "--files" in args else sorted(FILES)
    os.makedirs(os.path.dirname(out_path), exist_ok=True)
    pool = []
    for f in files:
        src = open(os.path.join(REPO, f)).read()
        for s in sites(ast.parse(src)):
            pool.append((f, s))
    random.Random(seed).shuffle(pool)
    head = run(["git", "-C", REPO, "rev-parse", "--short", "HEAD"]).stdout.decode().strip()
    print("{} mutation sites in {} files; running {} from position {} (seed {})".format(len(pool), len(files), count, skip, seed), flush=True)
    for f, site in pool[skip:skip + count]:
        src = open(os.path.join(REPO, f)).read()
        try:
            new_src, line, before, after = mutate(src, site)
            compile(new_src, f, "exec")
        except Exception as err:
            print("skip {} {}: {}".format(f, site, err), flush=True)
            continue
        d = tempfile.mkdtemp(prefix="mutant.", dir="/tmp")
        t0 = time.time()
        try:
            run(["git", "-C", REPO, "archive", "HEAD", "-o", os.path.join(d, "a.tar")])
            run(["tar", "-xf", "a.tar"], cwd=d)
            os.remove(os.path.join(d, "a.tar"))
            with open(os.path.join(d, f), "w") as fh:
                fh.write(new_src)
            rec = dict(repo=head, file=f, line=line, kind=site[1], before=before[:120], after=after[:120])
            r = run([os.path.join(VERIF, "tools", "baseline.py"), d])
            if r.returncode != 0:
                rec["status"] = "suite"
            else:
                rec["status"] = "survived"
                rec["checks_run"] = []
                for cid in FILES[f]:
                    env = dict(os.environ, VERIF_REPO=d, VERIF_EVIDENCE_DIR=os.path.join(d, "ev"), VERIF_SEED=str(seed))
                    r = run([os.path.join(VERIF, "check"), cid, "--tier", "quick"], env=env)
                    rec["checks_run"].append(cid)
                    text = r.stdout.decode("utf-8", "replace")
                    if r.returncode == 1 and "VIOLATION" in text:
                        rec["status"] = "caught"
                        rec["by"] = cid
                        detail = [l for l in text.splitlines() if "detail:" in l]
                        rec["detail"] = detail[0].strip()[:200] if detail else ""
                        break
                    if r.returncode not in (0, 1):
                        rec["status"] = "harness-error"
                        rec["by"] = cid
                        rec["detail"] = text[-300:]
                        break
            rec["seconds"] = round(time.time() - t0, 1)
            with open(out_path, "a") as fh:
                fh.write(json.dumps(rec) + "\n")
            print(json.dumps(rec), flush=True)
        finally:
            shutil.rmtree(d, ignore_errors=True)


if __name__ == "__main__":
    main()
