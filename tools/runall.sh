#!/bin/bash
# tools/runall.sh [seed] [tier] : run every check, print exit status, wall time and the tightest health margin
cd /verif
SEED=${1:-1}; TIER=${2:-quick}
for c in C01 C02 C03 C04 C05 C06 C07 C08 C09 C10 C11 C12 C13 C14 C15 C16 C17 C18 C19; do
  VERIF_SEED=$SEED ./check $c --tier $TIER > /tmp/work/runall.$c.out 2>&1; rc=$?
  /venv/bin/python - "$c" "$rc" <<'PY'
import json, sys, importlib
sys.path.insert(0, "/verif")
c, rc = sys.argv[1], sys.argv[2]
e = json.load(open("/verif/evidence/%s.json" % c))
cov = e["coverage"]
mod = importlib.import_module("checks." + c.lower())
total = cov["evaluations"] - cov.get("fuzzing", {}).get("execs", 0)
margins = []
for lab, floor in getattr(mod, "HEALTH", {}).items():
    n = cov["classes"].get(lab, 0)
    have = n if floor >= 1 else n / max(total, 1)
    margins.append((have / floor, lab))
m = min(margins) if margins else (None, "-")
print("%s exit=%s wall=%5.1fs evals=%d nt=%d viol=%s tightest-health=%s (%s)" % (c, rc, e["wall_s"], cov["evaluations"], cov["distinct_nontrivial"], e.get("violations"), "%.2fx" % m[0] if m[0] else "-", m[1]))
PY
done
