#!/venv/bin/python
"""prints a markdown table of /verif/seeded/*/meta.json"""
import glob, json, os
rows = []
for p in sorted(glob.glob(os.path.join(os.path.dirname(os.path.dirname(os.path.abspath(__file__))), "seeded", "*", "meta.json"))):
    m = json.load(open(p))
    rows.append("| {} | {} | {} | {} | {} |".format(m["id"], m["property"], m["needs_to_manifest"].replace("|", "/"),
                                                   ", ".join(m["caught_by_quick"]) or "-", ", ".join(m["not_caught_by_quick"]) or "-"))
print("| seed | property | needs, to manifest | caught by (quick) | other checks run, quiet |")
print("|---|---|---|---|---|")
print("\n".join(rows))
