#!/bin/bash
# tools/seedbatch.sh : re-run every stored seed against the quick checks that are recorded as catching it.
cd /verif
for d in seeded/*/; do
  id=$(basename "$d")
  checks=$(/venv/bin/python -c "import json;print(' '.join(json.load(open('$d/meta.json'))['caught_by_quick']))")
  out=$(tools/seedcheck.sh "$d" $checks 2>&1)
  miss=$(echo "$out" | grep '^==' | grep -v 'exit=1' | cut -c1-40)
  bad=$(echo "$out" | grep -E 'APPLY-FAILED|missing [1-9]|demo with change exit=[^1]|demo on /repo exit=[^0]')
  echo "$id: $(echo "$out" | grep -c '^== .*exit=1')/$(echo $checks | wc -w) caught ${miss:+MISSED: $miss} ${bad:+PROBLEM: $bad}"
done
