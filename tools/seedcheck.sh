#!/bin/bash
# tools/seedcheck.sh <seed-dir containing patch.diff demo.py> <check ids...>
# Confirms a seeded change in a scratch copy of /repo HEAD: applies, baseline tests pass, demo fails with it and
# passes without it; then runs the named checks (quick tier) against the copy.  Removes the copy afterwards.
set -u
SEED=$(readlink -f "$1"); shift
D=$(mktemp -d /tmp/seed.XXXXXX)
REF=HEAD
if [ -f "$SEED/meta.json" ]; then   # a seed neutralised by a later repair is replayed on the commit it was confirmed on
  REF=$(/venv/bin/python -c "import json,sys;print(json.load(open(sys.argv[1])).get('pinned_repo_commit') or 'HEAD')" "$SEED/meta.json")
fi
git -C /repo archive "$REF" | tar -x -C "$D"
( cd "$D" && patch -p1 -s < "$SEED/patch.diff" ) || { echo "APPLY-FAILED"; rm -rf "$D"; exit 3; }
echo "-- baseline with change: $(/verif/tools/baseline.py "$D" | head -1)"
/venv/bin/python -B "$SEED/demo.py" "$D" > "$D/demo.with" 2>&1; echo "-- demo with change exit=$? (want 1)"
if [ "$REF" = HEAD ]; then BASE=/repo; else BASE=$(mktemp -d /tmp/seedbase.XXXXXX); git -C /repo archive "$REF" | tar -x -C "$BASE"; fi
/venv/bin/python -B "$SEED/demo.py" "$BASE" > "$D/demo.without" 2>&1; echo "-- demo on unchanged tree ($REF) exit=$? (want 0)"
[ "$REF" = HEAD ] || rm -rf "$BASE"
TIER=${TIER:-quick}
for id in "$@"; do
  s=$(date +%s)
  VERIF_REPO="$D" VERIF_EVIDENCE_DIR="$D/ev" /verif/check "$id" --tier "$TIER" > "$D/out.$id" 2>&1
  rc=$?
  echo "== $id exit=$rc ($(( $(date +%s) - s ))s): $(grep -a -m1 -E "VIOLATION|HARNESS" "$D/out.$id") | $(grep -a -m1 detail: "$D/out.$id" | cut -c1-220)"
done
rm -rf "$D"
