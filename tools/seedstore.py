#!/venv/bin/python
"""tools/seedstore.py <worktree-name> <seed-id> <property> <caught_by(comma)> <missed_by(comma or -)> <needs text>"""
import sys, os, shutil, json, subprocess
wt, sid, pid, caught, missed, needs = sys.argv[1:7]
src = "/tmp/wt/%s/SEED" % wt
dst = "/verif/seeded/%s" % sid
os.makedirs(dst, exist_ok=True)
for f in ("patch.diff", "demo.py", "notes.md"):
    shutil.copy(os.path.join(src, f), os.path.join(dst, f))
head = subprocess.check_output(["git", "-C", "/repo", "rev-parse", "--short", "HEAD"]).decode().strip()
json.dump({
    "id": sid, "property": pid, "origin": "independent sub-agent given only the property text and a scratch worktree",
    "needs_to_manifest": needs,
    "repo_head_when_confirmed": head,
    "confirmed": "tools/seedcheck.sh: patch applies to a scratch copy of /repo HEAD; repository suite still 490/490 stable_pass; demo.py exits 1 with the change and 0 on /repo",
    "caught_by_quick": [c for c in caught.split(",") if c and c != "-"],
    "not_caught_by_quick": [c for c in missed.split(",") if c and c != "-"],
}, open(os.path.join(dst, "meta.json"), "w"), indent=1)
print("stored", dst)
