"""Source-level model of EDTASM+ statements: spellings, operand rendering, expected meaning (DESIGN.md 4.2).

Shares no code with the repository: validity comes from the README grammar and the datasheet mode table
(vlib/ref6809.MODES), the expected normal form from the statement description alone.
"""
from vlib import ref6809 as R

BOUNDARY = [0, 1, 15, 16, 17, 127, 128, 129, 255, 256, 257, 32767, 32768, 65535,
            -1, -15, -16, -17, -127, -128, -129, -255, -256, -32768]

SYM = "ZZV"      # symbol used for EQU / label value sources (not a register name)
NEXT = "ZZN"     # sentinel label after the statement under test

IDX_REGS = ["X", "Y", "U", "S"]
STACK_REGS_ALL = ["CC", "A", "B", "D", "DP", "X", "Y", "U", "S", "PC"]
PAIR8 = ["A", "B", "CC", "DP"]
PAIR16 = ["D", "X", "Y", "U", "S", "PC"]

CHAR_OK = set("ABCDEFGHIJKLMNOPQRSTUVWXYZabcdefghijklmnopqrstuvwxyz0123456789")


def spellings(v):
    """every spelling the README grammar / value syntax offers for integer v: list of (tag, text)"""
    if v < 0:
        return [("dec", str(v)), ("dec6", "-%06d" % -v)]
    out = [("dec", str(v))]
    digits = "%X" % v
    out.append(("hex%d" % len(digits), "$" + digits))
    for width in (2, 3, 4):
        if width > len(digits):
            out.append(("hex%d" % width, "$" + digits.rjust(width, "0")))
    if v < 256:
        out.append(("bin8", "%" + format(v, "08b")))
    out.append(("bin16", "%" + format(v, "016b")))
    if v < 128 and chr(v) in CHAR_OK:
        out.append(("chr", "'" + chr(v)))
    out.append(("dec6", "%06d" % v))          # decimal padded with zeros to six digits (kept last: callers slice the front)
    return out


def spell(v, tag):
    for t, text in spellings(v):
        if t == tag:
            return text
    raise KeyError((v, tag))


def mnemonic_forms(mn):
    """operand forms (C01 vocabulary) the datasheet gives this mnemonic"""
    kinds = R.MODES[R.canon(mn)]
    forms = []
    if "inh" in kinds:
        forms.append("inh")
    if "imm8" in kinds or "imm16" in kinds:
        forms.append("imm")
    if "dir" in kinds:
        forms += ["mem"]
    if "idx" in kinds:
        forms += ["extind", "idx", "idxbare", "idxacc", "idxauto", "pcr"]
    if "rel8" in kinds or "rel16" in kinds:
        forms.append("branch")
    if "stkS" in kinds or "stkU" in kinds:
        forms.append("reglist")
    if "pair" in kinds:
        forms.append("pair")
    return forms


def imm_width(mn):
    kinds = R.MODES[R.canon(mn)]
    return 1 if "imm8" in kinds else 2 if "imm16" in kinds else 0


def operand_text(case, vtext):
    """operand field for a C01-style statement description; vtext = how the value is written"""
    form = case["form"]
    if form == "inh":
        return ""
    if form == "imm":
        return "#" + vtext
    if form == "mem":
        return case.get("force", "") + vtext
    if form == "extind":
        return "[" + vtext + "]"
    if form == "idx":
        body = (vtext if case.get("off") is not None else "") + "," + case["reg"]
        return "[" + body + "]" if case.get("ind") else body
    if form == "idxbare":
        return case["reg"]
    if form == "idxacc":
        body = case["acc"] + "," + case["reg"]
        return "[" + body + "]" if case.get("ind") else body
    if form == "idxauto":
        a = case["auto"]
        body = "," + (case["reg"] + a if a[0] == "+" else a + case["reg"])
        return "[" + body + "]" if case.get("ind") else body
    if form == "pcr":
        body = vtext + ",PCR"
        return "[" + body + "]" if case.get("ind") else body
    if form == "reglist":
        return ",".join(case["regs"])
    if form == "pair":
        return case["a"] + "," + case["b"]
    if form == "branch":
        return NEXT
    raise KeyError(form)


def expected_nf(case, v):
    """normal form the statement means; v = the operand's integer value (None when the form has none)"""
    form = case["form"]
    mn = case["mn"]
    if form == "inh":
        return ("inh",)
    if form == "imm":
        w = imm_width(mn)
        return ("imm", v % (1 << (8 * w)), w)
    if form == "mem":
        force = case.get("force", "")
        return ("mem", v % 65536, "dir" if force == "<" else "ext" if force == ">" else None)
    if form == "extind":
        return ("idx", None, "extind", v % 65536, True)
    if form == "idx":
        off = 0 if case.get("off") is None else v % 65536
        return ("idx", case["reg"], "off", off, bool(case.get("ind")))
    if form == "idxbare":
        return ("idx", case["reg"], "off", 0, False)
    if form == "idxacc":
        return ("idx", case["reg"], "acc:" + case["acc"], None, bool(case.get("ind")))
    if form == "idxauto":
        variant = {"+": "inc1", "++": "inc2", "-": "dec1", "--": "dec2"}[case["auto"]]
        return ("idx", case["reg"], variant, None, bool(case.get("ind")))
    if form == "pcr":
        return ("idx", None, "pcr", v % 65536, bool(case.get("ind")))
    if form == "reglist":
        regs = set()
        for r in case["regs"]:
            regs |= {"A", "B"} if r == "D" else {r}
        return ("stk", frozenset(regs))
    if form == "pair":
        return ("pair", case["a"], case["b"])
    raise KeyError(form)


def line(label, mnemonic, operand="", comment=None):
    text = "{:<8} {} {}".format(label, mnemonic, operand).rstrip(" ")
    if not operand:
        text += " "
    if comment is not None:
        text += " ; " + comment
    return text + "\n"


def nf_matches(expected, got):
    if expected[0] != got[0]:
        return False
    if expected[0] == "mem":
        return expected[1] == got[1] and (expected[2] is None or expected[2] == got[2])
    return tuple(expected) == tuple(got)
