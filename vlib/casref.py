"""Independent model of the CoCo cassette byte stream (DESIGN.md section 4.5).

Written from the Color BASIC tape format description, not from cocoasm/virtualfiles/cassette.py:

  tape  := file* filler
  file  := filler leader nameblock filler leader datablock-seq eofblock
  block := $55 $3C type len payload[len] checksum $55     checksum = (type+len+sum(payload)) mod 256
  nameblock: type 0, len 15, payload = name[8] filetype datatype gapflag load[2] exec[2]
  datablock: type 1, len 0..255 ; eofblock: type $FF, len 0
  filler := ($00 | $55)*   leader := $55+  (at least one leader byte in front of the sync byte)
"""


class TapeError(Exception):
    def __init__(self, offset, rule):
        Exception.__init__(self, "offset {}: {}".format(offset, rule))
        self.offset = offset
        self.rule = rule


class TapeFile(object):
    __slots__ = ("name", "ftype", "dtype", "gap", "load", "exec", "data", "blocks", "start", "end")

    def as_dict(self):
        return dict(name=self.name, ftype=self.ftype, dtype=self.dtype, gap=self.gap, load=self.load,
                    exec=self.exec, data=bytes(self.data), blocks=list(self.blocks))


def _sync(buf, pos, need_leader, what):
    """skip filler, return index of the block's $55 sync byte"""
    n = len(buf)
    start = pos
    while pos < n and buf[pos] in (0x00, 0x55):
        pos += 1
    if pos >= n:
        return None
    if buf[pos] != 0x3C:
        raise TapeError(pos, "byte ${:02X} between blocks is neither gap, leader nor sync ({})".format(buf[pos], what))
    if pos - 1 < start or buf[pos - 1] != 0x55:
        raise TapeError(pos, "$3C not preceded by $55 sync byte ({})".format(what))
    if need_leader and (pos - 2 < start or buf[pos - 2] != 0x55):
        raise TapeError(pos, "no leader byte in front of the sync byte ({})".format(what))
    return pos - 1


def _block(buf, pos, what):
    """buf[pos] is the sync byte; returns (type, payload, next_pos)"""
    n = len(buf)
    if pos + 4 > n:
        raise TapeError(pos, "truncated block header ({})".format(what))
    btype = buf[pos + 2]
    blen = buf[pos + 3]
    end = pos + 4 + blen
    if end + 2 > n:
        raise TapeError(pos, "truncated block: length byte {} runs past the end ({})".format(blen, what))
    payload = bytes(buf[pos + 4:end])
    want = (btype + blen + sum(payload)) & 0xFF
    if buf[end] != want:
        raise TapeError(end, "checksum ${:02X}, expected ${:02X} ({})".format(buf[end], want, what))
    if buf[end + 1] != 0x55:
        raise TapeError(end + 1, "block not terminated by $55 ({})".format(what))
    return btype, payload, end + 2


def parse(buf):
    """strict parse of a whole tape image -> list of TapeFile; raises TapeError"""
    buf = bytes(bytearray(buf))
    files = []
    pos = 0
    while True:
        sync = _sync(buf, pos, True, "name block of file {}".format(len(files) + 1))
        if sync is None:
            return files
        btype, payload, pos = _block(buf, sync, "name block of file {}".format(len(files) + 1))
        if btype != 0x00:
            raise TapeError(sync, "expected a name block (type 0), found type ${:02X}".format(btype))
        if len(payload) != 15:
            raise TapeError(sync, "name block payload is {} bytes, not 15".format(len(payload)))
        f = TapeFile()
        f.start = sync
        f.name = payload[0:8]
        f.ftype = payload[8]
        f.dtype = payload[9]
        f.gap = payload[10]
        f.load = (payload[11] << 8) | payload[12]
        f.exec = (payload[13] << 8) | payload[14]
        f.data = bytearray()
        f.blocks = []
        first = True
        while True:
            what = "block {} of file {}".format(len(f.blocks) + 1, len(files) + 1)
            sync = _sync(buf, pos, first, what)
            if sync is None:
                raise TapeError(pos, "tape ends before the end-of-file block ({})".format(what))
            btype, payload, pos = _block(buf, sync, what)
            first = False
            if btype == 0xFF:
                if len(payload) != 0:
                    raise TapeError(sync, "end-of-file block with payload")
                break
            if btype != 0x01:
                raise TapeError(sync, "unexpected block type ${:02X} ({})".format(btype, what))
            f.blocks.append(len(payload))
            f.data.extend(payload)
        f.end = pos
        files.append(f)


def block_bytes(btype, payload):
    payload = bytes(payload)
    assert len(payload) <= 255
    return bytes([0x55, 0x3C, btype, len(payload)]) + payload + bytes(
        [(btype + len(payload) + sum(payload)) & 0xFF, 0x55])


def write(files, trailing=0):
    """Variant writer.  files: list of dicts with keys
         name (bytes, 8), ftype, dtype, load, exec, data (bytes),
         gap1, lead1 (before the name block), gap2, lead2 (before the data), chunks (list of sizes covering
         data, each 1..255), gapflag (0 or 0xFF), bgap, blead (filler between data blocks when gapflag=0xFF)
    """
    out = bytearray()
    for f in files:
        out += bytes(f["gap1"]) + b"\x55" * f["lead1"]
        header = bytes(f["name"]) + bytes([f["ftype"], f["dtype"], f["gapflag"],
                                            f["load"] >> 8, f["load"] & 0xFF, f["exec"] >> 8, f["exec"] & 0xFF])
        out += block_bytes(0x00, header)
        out += bytes(f["gap2"]) + b"\x55" * f["lead2"]
        pos = 0
        data = bytes(f["data"])
        for i, size in enumerate(f["chunks"]):
            if i and f["gapflag"]:
                out += bytes(f["bgap"]) + b"\x55" * f["blead"]
            out += block_bytes(0x01, data[pos:pos + size])
            pos += size
        assert pos == len(data)
        if f["gapflag"] and f["chunks"]:
            out += bytes(f["bgap"]) + b"\x55" * f["blead"]
        out += block_bytes(0xFF, b"")
    out += b"\x55" * trailing
    return bytes(out)
