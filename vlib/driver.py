"""In-process and CLI drivers for the code under test (DESIGN.md 4.4)."""
import collections
import io
import os
import signal
import subprocess
import sys
import tempfile
import traceback

REPO = os.environ.get("VERIF_REPO", "/repo")
PYTHON = sys.executable or "/venv/bin/python"

Outcome = collections.namedtuple(
    "Outcome", "kind image rows symbols origin name message exc frame detail")
# kind: OK | DIAG | CRASH | HANG
# rows: list of (address:int, hexcol:str, text:str) parsed from the listing lines (README columns 1 and 2)
# symbols: list of (name, value:int) in table order


class _Hang(BaseException):
    pass


class _NoProgress(_Hang):
    pass


def _alarm(signum, frame):
    raise _Hang("watchdog")


_program_cls = None


def _watched_program():
    """Program subclass whose size fix-point loop is observed: 200 consecutive passes that leave every statement's
    (fixed, size, max size) unchanged while some size is still open are taken as non-termination (the 20 s
    watchdog is the backstop for loops of any other shape)."""
    global _program_cls
    if _program_cls is None:
        import inspect
        from cocoasm.program import Program
        base = Program.__dict__.get("all_sizes_fixed")
        if not inspect.isfunction(base) or list(inspect.signature(base).parameters) != ["self"]:
            # the loop test is no longer an instance method of the shape the observer wraps (a refactoring may make
            # it a classmethod, rename it, give it arguments): observe nothing, the watchdog alone decides
            _program_cls = Program
            return _program_cls

        class WatchedProgram(Program):
            def all_sizes_fixed(self):
                done = Program.all_sizes_fixed(self)
                if not done:
                    try:
                        snap = tuple((s.fixed_size, s.code_pkg.size, s.code_pkg.max_size) for s in self.statements)
                    except Exception:
                        return done         # the statements no longer look the way the observer expects: observe nothing
                    if getattr(self, "_verif_snap", None) == snap:
                        # an implementation may legitimately need a pass without progress before it settles the
                        # remaining sizes; only a long run of identical states is taken as "never terminates"
                        self._verif_same = getattr(self, "_verif_same", 0) + 1
                        if self._verif_same >= 200:
                            raise _NoProgress("size fix-point loop makes no progress (200 identical passes)")
                    else:
                        self._verif_same = 0
                    self._verif_snap = snap
                return done

        _program_cls = WatchedProgram
    return _program_cls


def repo_frame(tb):
    """innermost traceback frame that lies inside the repository: 'file.py:function'"""
    best = "?"
    for fs in traceback.extract_tb(tb):
        if "cocoasm" in fs.filename or fs.filename.endswith(("assembler.py", "file_util.py")):
            best = "{}:{}".format(os.path.basename(fs.filename), fs.name)
    return best


def parse_rows(lines):
    rows = []
    for line in lines:
        addr_txt = line[1:5]
        # a statement that has no address (it emits nothing behind a last byte at $FFFF) is listed with an empty address
        # field, which shifts the other columns: the field counts only when it is four hex digits
        if len(addr_txt) == 4 and all(c in "0123456789ABCDEFabcdef" for c in addr_txt) and line[:1] == "$":
            rows.append((int(addr_txt, 16), line[6:16].strip(), line))
        else:
            rows.append((None, "", line))
    return rows


def parse_symbols(lines):
    out = []
    for line in lines:
        head, _, name = line.partition(" ")
        name = line[len(head):].strip()
        try:
            value = int(head[1:].strip(), 16)
        except ValueError:
            value = None
        out.append((name, value))
    return out


def assemble(lines, timeout=20.0, cwd=None):
    """Assemble `lines` (list of '\\n'-terminated strings) with a fresh Program. Never raises for the code
    under test; returns an Outcome."""
    from cocoasm.exceptions import ParseError, TranslationError
    program = _watched_program()()
    old_handler = signal.signal(signal.SIGALRM, _alarm)
    signal.setitimer(signal.ITIMER_REAL, timeout)
    old_cwd = None
    if cwd is not None:
        old_cwd = os.getcwd()
        os.chdir(cwd)
    try:
        try:
            program.process(lines)
        except (ParseError, TranslationError) as err:
            stmt = getattr(err, "statement", None)
            try:
                stmt_text = str(stmt) if stmt is not None else None
                stmt_ok = stmt is not None
            except Exception as err2:
                return Outcome("CRASH", None, None, None, None, None, str(err.value), type(err2).__name__,
                               "str(statement) of the diagnostic", "diagnostic statement cannot be printed")
            return Outcome("DIAG", None, None, None, None, None, str(err.value), type(err).__name__, None,
                           stmt_text if stmt_ok else None)
        image = program.get_binary_array()
        if any((not isinstance(b, int)) or b < 0 or b > 255 for b in image):
            return Outcome("CRASH", None, None, None, None, None, "image holds a non-byte", "ValueError",
                           "program.py:get_binary_array", None)
        rows = parse_rows(program.get_statements())
        symbols = parse_symbols(program.get_symbol_table())
        origin = program.origin.int if program.origin.is_numeric() else None
        return Outcome("OK", bytes(image), rows, symbols, origin, program.name, None, None, None, None)
    except _NoProgress as err:
        return Outcome("HANG", None, None, None, None, None, str(err), "NoProgress", None, None)
    except _Hang as err:
        return Outcome("HANG", None, None, None, None, None, str(err), "Watchdog", None, None)
    except RecursionError as err:
        return Outcome("CRASH", None, None, None, None, None, "recursion", "RecursionError",
                       repo_frame(sys.exc_info()[2]), None)
    except Exception as err:
        return Outcome("CRASH", None, None, None, None, None, str(err)[:200], type(err).__name__,
                       repo_frame(sys.exc_info()[2]), None)
    finally:
        signal.setitimer(signal.ITIMER_REAL, 0)
        signal.signal(signal.SIGALRM, old_handler)
        if old_cwd is not None:
            os.chdir(old_cwd)


def canonical(outcome):
    """hashable, comparable summary of an Outcome (C17/C19)"""
    if outcome.kind == "OK":
        return ("OK", outcome.image, tuple(r[2] for r in outcome.rows), tuple(outcome.symbols), outcome.origin,
                outcome.name)
    return (outcome.kind, outcome.exc, outcome.message, outcome.detail)


# --------------------------------------------------------------------------- CLI

CliResult = collections.namedtuple("CliResult", "status stdout stderr")


def run_cli(script, argv, cwd, timeout=120, env_extra=None):
    """real subprocess: python -B <repo>/<script> argv..."""
    env = dict(os.environ)
    env["PYTHONDONTWRITEBYTECODE"] = "1"
    env.pop("PYTHONHASHSEED", None)
    if env_extra:
        env.update(env_extra)
    try:
        proc = subprocess.run([PYTHON, "-B", os.path.join(REPO, script)] + list(argv), cwd=cwd, env=env,
                              stdout=subprocess.PIPE, stderr=subprocess.PIPE, timeout=timeout)
    except subprocess.TimeoutExpired:
        return CliResult("timeout", "", "")
    return CliResult(proc.returncode, proc.stdout.decode("utf-8", "replace"), proc.stderr.decode("utf-8", "replace"))


def snapshot(directory):
    """{relative name: bytes} of all regular files in a directory tree"""
    out = {}
    for root, _dirs, files in os.walk(directory):
        for name in files:
            path = os.path.join(root, name)
            with open(path, "rb") as fh:
                out[os.path.relpath(path, directory)] = fh.read()
    return out


class TempDir(object):
    def __enter__(self):
        self._td = tempfile.TemporaryDirectory(prefix="verif-")
        return self._td.name

    def __exit__(self, *exc):
        self._td.cleanup()
        return False
