"""Independent model of a 35-track Disk BASIC (RS-DOS) image (DESIGN.md 4.6).

Written from the Disk BASIC format description, not from cocoasm/virtualfiles/disk.py:
  35 tracks x 18 sectors x 256 bytes = 161,280 bytes; granule g = 9 sectors at track g//2 (+1 when g >= 34), half g%2
  FAT       = track 17 sector 2 (offset 78,592), 68 entries: $FF free, 0..67 next granule, $C0+s last granule, s sectors used
  directory = track 17 sectors 3-11 (offset 78,848), 72 x 32 bytes:
              name[8] ext[3] type ascii-flag first-granule bytes-in-last-sector[2] unused[16]; byte 0 = $00 deleted, $FF unused
  machine-language file stream: 00 len[2] load[2] data[len] FF 00 00 exec[2]; BASIC (binary) stream: FF len[2] data[len]
"""

IMAGE_SIZE = 161280
GRANULE = 2304
SECTOR = 256
FAT_OFFSET = 78592
DIR_OFFSET = 78848
DIR_END = DIR_OFFSET + 9 * SECTOR
TRACK17 = 17 * 18 * SECTOR
TRACK17_END = TRACK17 + 18 * SECTOR
NGRAN = 68
NSLOTS = 72


def granule_offset(g):
    return GRANULE * g + (2 * GRANULE if g >= 34 else 0)


class DiskError(Exception):
    pass


class DiskEntry(object):
    __slots__ = ("slot", "name", "ext", "ftype", "ascii", "first", "last_bytes", "chain", "sectors", "length", "stream")


def walk_chain(fat, first):
    """-> (chain, sectors_in_last) or raises DiskError"""
    chain = []
    g = first
    while True:
        if not 0 <= g < NGRAN:
            raise DiskError("chain leaves granules 0-67 (entry ${:02X})".format(g))
        if g in chain:
            raise DiskError("chain revisits granule {}".format(g))
        chain.append(g)
        e = fat[g]
        if e == 0xFF:
            raise DiskError("chain runs into a free granule ({})".format(g))
        if e >= 0xC0:
            s = e & 0x3F
            if s > 9:
                raise DiskError("last-granule marker ${:02X} has more than 9 sectors".format(e))
            return chain, s
        g = e


def entries(image):
    """parse directory + chains; raises DiskError on structural damage"""
    if len(image) != IMAGE_SIZE:
        raise DiskError("image is {} bytes, not 161,280".format(len(image)))
    fat = image[FAT_OFFSET:FAT_OFFSET + NGRAN]
    out = []
    for slot in range(NSLOTS):
        raw = image[DIR_OFFSET + 32 * slot:DIR_OFFSET + 32 * slot + 32]
        if raw[0] in (0x00, 0xFF):
            continue
        e = DiskEntry()
        e.slot = slot
        e.name = bytes(raw[0:8])
        e.ext = bytes(raw[8:11])
        e.ftype = raw[11]
        e.ascii = raw[12]
        e.first = raw[13]
        e.last_bytes = (raw[14] << 8) | raw[15]
        e.chain, e.sectors = walk_chain(fat, e.first)
        if e.last_bytes > 256:
            raise DiskError("slot {}: {} bytes in the last sector".format(slot, e.last_bytes))
        e.length = (len(e.chain) - 1) * GRANULE + max(e.sectors - 1, 0) * SECTOR + e.last_bytes
        if e.sectors == 0 and e.last_bytes:
            raise DiskError("slot {}: 0 sectors in the last granule but {} bytes in the last sector".format(slot, e.last_bytes))
        stream = bytearray()
        for g in e.chain:
            off = granule_offset(g)
            stream += image[off:off + GRANULE]
        e.stream = bytes(stream[:e.length])
        out.append(e)
    return out


def fsck(image, blank=None):
    """structural consistency check; returns a list of problems (empty = valid)"""
    image = bytes(bytearray(image))
    problems = []
    try:
        ents = entries(image)
    except DiskError as err:
        return [str(err)]
    fat = image[FAT_OFFSET:FAT_OFFSET + NGRAN]
    owner = {}
    for e in ents:
        for g in e.chain:
            if g in owner:
                problems.append("granule {} belongs to the files in slots {} and {}".format(g, owner[g], e.slot))
            owner[g] = e.slot
    for g in range(NGRAN):
        if fat[g] != 0xFF and g not in owner:
            problems.append("FAT entry {} = ${:02X} belongs to no file".format(g, fat[g]))
    for e in ents:
        if e.ftype == 0x02:
            s = e.stream
            if len(s) < 10:
                problems.append("slot {}: machine-language stream of {} bytes is shorter than header + trailer".format(e.slot, len(s)))
                continue
            if s[0] != 0x00:
                problems.append("slot {}: ML header flag ${:02X}".format(e.slot, s[0]))
            n = (s[1] << 8) | s[2]
            if len(s) != n + 10:
                problems.append("slot {}: directory/FAT imply a stream of {} bytes but the ML header says {} data bytes (+10)".format(
                    e.slot, len(s), n))
                continue
            t = s[5 + n:5 + n + 5]
            if t[0:3] != b"\xff\x00\x00":
                problems.append("slot {}: ML trailer is {} in chain order, expected FF 00 00 exec".format(e.slot, t.hex()))
        elif e.ascii != 0xFF:
            s = e.stream
            if len(s) < 3 or s[0] != 0xFF:
                problems.append("slot {}: BASIC stream does not start with FF len".format(e.slot))
            elif len(s) != ((s[1] << 8) | s[2]) + 3:
                problems.append("slot {}: directory/FAT imply {} bytes but the BASIC header says {} (+3)".format(
                    e.slot, len(s), (s[1] << 8) | s[2]))
    # bytes outside allocated granules, the FAT sector and the directory sectors must be as freshly formatted
    ref = blank if blank is not None else None
    allowed = [(FAT_OFFSET, FAT_OFFSET + SECTOR), (DIR_OFFSET, DIR_END)]
    for g in owner:
        off = granule_offset(g)
        allowed.append((off, off + GRANULE))
    allowed.sort()
    pos = 0
    for lo, hi in allowed + [(IMAGE_SIZE, IMAGE_SIZE)]:
        if pos < lo:
            seg = image[pos:lo]
            want = ref[pos:lo] if ref is not None else b"\xff" * (lo - pos)
            if seg != want:
                first = next(i for i in range(len(seg)) if seg[i] != want[i])
                problems.append("byte at offset {} (outside allocated granules, FAT and directory) is ${:02X}, freshly "
                                "formatted image has ${:02X}".format(pos + first, seg[first], want[first]))
        pos = max(pos, hi)
    return problems


def read(image):
    """independent reader: list of dicts in directory order"""
    out = []
    for e in entries(bytes(bytearray(image))):
        f = dict(name=e.name, ext=e.ext, ftype=e.ftype, dtype=e.ascii, chain=e.chain, load=0, exec=0)
        s = e.stream
        if e.ftype == 0x02:
            if len(s) < 10 or s[0] != 0:
                raise DiskError("slot {}: not a machine-language stream".format(e.slot))
            n = (s[1] << 8) | s[2]
            f["load"] = (s[3] << 8) | s[4]
            f["data"] = s[5:5 + n]
            t = s[5 + n:10 + n]
            if len(s) != n + 10 or t[:3] != b"\xff\x00\x00":
                raise DiskError("slot {}: ML stream length/trailer inconsistent".format(e.slot))
            f["exec"] = (t[3] << 8) | t[4]
        elif e.ascii == 0xFF:
            f["data"] = s
        else:
            if len(s) < 3 or s[0] != 0xFF:
                raise DiskError("slot {}: BASIC stream without FF len header".format(e.slot))
            n = (s[1] << 8) | s[2]
            f["data"] = s[3:3 + n]
        out.append(f)
    return out


def stream_of(f):
    """bytes stored on disk for a file description (name, ext, ftype, dtype, load, exec, data)"""
    data = bytes(f["data"])
    if f["ftype"] == 0x02:
        return (bytes([0, len(data) >> 8, len(data) & 0xFF, f["load"] >> 8, f["load"] & 0xFF]) + data +
                bytes([0xFF, 0, 0, f["exec"] >> 8, f["exec"] & 0xFF]))
    if f["dtype"] == 0xFF:
        return data
    return bytes([0xFF, len(data) >> 8, len(data) & 0xFF]) + data


def granules_needed(stream_len):
    return stream_len // GRANULE + 1


def write(files, chains, slots=None, slack=0xFF):
    """independent writer: place each file on the given chain (list of distinct granules, len = granules_needed)"""
    img = bytearray(b"\xff" * IMAGE_SIZE)
    for i in range(NGRAN, SECTOR):
        img[FAT_OFFSET + i] = 0x00
    for idx, (f, chain) in enumerate(zip(files, chains)):
        s = stream_of(f)
        assert len(chain) == granules_needed(len(s)), (len(chain), len(s))
        for k, g in enumerate(chain):
            part = s[k * GRANULE:(k + 1) * GRANULE]
            off = granule_offset(g)
            img[off:off + GRANULE] = part + bytes([slack]) * (GRANULE - len(part))
            if k + 1 < len(chain):
                img[FAT_OFFSET + g] = chain[k + 1]
        slot = slots[idx] if slots else idx
        rest = len(s) - (len(chain) - 1) * GRANULE
        sectors, last = rest // SECTOR + 1, rest % SECTOR
        if f.get("full_last") and last == 0 and rest > 0:
            sectors, last = rest // SECTOR, SECTOR      # the other convention for a stream ending on a sector edge
        img[FAT_OFFSET + chain[-1]] = 0xC0 + sectors
        entry = (bytes(f["name"][:8]).ljust(8, b" ") + bytes(f["ext"][:3]).ljust(3, b" ") +
                 bytes([f["ftype"], f["dtype"], chain[0], last >> 8, last & 0xFF]) + bytes(16))
        img[DIR_OFFSET + 32 * slot:DIR_OFFSET + 32 * slot + 32] = entry
    if slots:
        # Disk BASIC stops scanning at the first never-used ($FF) entry: gaps in front of live entries are
        # deleted entries (first byte $00, the rest is what the killed file left behind)
        for slot in range(max(slots)):
            if slot not in slots:
                img[DIR_OFFSET + 32 * slot:DIR_OFFSET + 32 * slot + 32] = b"\x00ILLED  BAS\x00\x00" + bytes([slot % 68]) + b"\x00\x40" + bytes(16)
    return bytes(img)
