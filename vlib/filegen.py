"""Generators and helpers for CoCo files shared by the container checks (C06-C09, C14-C16).

A generated file is a small JSON-able description; its data bytes are expanded deterministically from
(n, k, mode, head, tail) so that 64 KB payloads cost Hypothesis a handful of choices and replay files
stay small.  Every random choice is drawn by Hypothesis (k is a drawn integer that seeds the expansion).
"""
import random

from hypothesis import strategies as st

MARKERS = bytes([0x55, 0x3C, 0x00, 0x01, 0xFF, 0x0F])
_MARKER_TABLE = bytes(MARKERS[i % 6] for i in range(256))
_RUN_TABLE = bytes((0x00 if i < 120 else 0xFF if i < 240 else i) for i in range(256))


def expand(d):
    """data descriptor -> bytes"""
    n, k, mode = d["n"], d["k"], d["mode"]
    if mode == 2:
        body = bytes([k & 0xFF]) * n
    else:
        body = random.Random(k).randbytes(n)
        if mode == 1:
            body = body.translate(_MARKER_TABLE)
        elif mode == 3:
            body = body.translate(_RUN_TABLE)
    body = bytearray(body)
    head = bytes.fromhex(d.get("head", ""))[:n]
    tail = bytes.fromhex(d.get("tail", ""))[:n]
    body[:len(head)] = head
    if tail:
        body[n - len(tail):] = tail
    return bytes(body)


CAS_LENGTHS = sorted(set(
    [0, 1, 2, 254, 255, 256, 257, 509, 510, 511, 512, 764, 765, 766, 1019, 1020, 1021, 1275, 2550, 2551]
    + [k * 255 + d for k in (3, 5, 8, 16) for d in (-1, 0, 1)]))

DSK_LENGTHS = sorted(set(
    [0, 1, 2, 5, 10]
    + [max(0, 256 * k + d) for k in (1, 2, 8, 9, 10) for d in range(-11, 12)]
    + [max(0, 2304 * k + d) for k in (1, 2, 3, 5) for d in range(-16, 12)]))

_marker_bytes = st.lists(st.sampled_from(list(MARKERS)), max_size=8).map(lambda l: bytes(l).hex())
_any_bytes = st.binary(max_size=8).map(lambda b: b.hex())
_edge = st.one_of(st.just(""), _marker_bytes, _any_bytes)


def data_desc(lengths, max_uniform=4096, big=65535, big_weight=1, min_len=0):
    lengths = [n for n in lengths if n >= min_len]
    length = st.one_of(
        st.sampled_from(lengths),
        st.sampled_from(lengths),
        st.integers(min_len, max_uniform),
        st.integers(min_len, max_uniform),
        *([st.integers(max_uniform, big)] * big_weight))
    return st.fixed_dictionaries(dict(
        n=length, k=st.integers(0, 2 ** 32 - 1), mode=st.sampled_from([0, 0, 1, 1, 2, 3]),
        head=_edge, tail=_edge))


_NAME_CHARS = "".join(chr(c) for c in range(0x21, 0x7F))
cas_name = st.text(alphabet=_NAME_CHARS, min_size=0, max_size=12)
_ALNUM = "ABCDEFGHIJKLMNOPQRSTUVWXYZabcdefghijklmnopqrstuvwxyz0123456789"
dsk_name = st.text(alphabet=_ALNUM, min_size=1, max_size=12)
dsk_ext = st.text(alphabet=_ALNUM, min_size=0, max_size=3)
word = st.one_of(st.sampled_from([0, 1, 0xFF, 0x100, 0x0E00, 0x7FFF, 0x8000, 0xFFFF, 0x553C, 0x3C00]),
                 st.integers(0, 0xFFFF))


def cas_file(lengths=CAS_LENGTHS, big_weight=1, min_len=0):
    return st.fixed_dictionaries(dict(
        name=cas_name, ftype=st.sampled_from([0, 1, 2, 2, 3]), dtype=st.sampled_from([0x00, 0xFF]),
        load=word, exec=word, gaps=st.sampled_from([None, None, 0x00, 0xFF]),
        data=data_desc(lengths, big_weight=big_weight, min_len=min_len)))


def to_coco(desc, data=None):
    """file description -> cocoasm CoCoFile (the object the tool's own callers build)"""
    from cocoasm.virtualfiles.coco_file import CoCoFile
    from cocoasm.values import NumericValue
    if data is None:
        data = expand(desc["data"])
    kw = {}
    if desc.get("gaps") is not None:      # the gap flag a file carries when it was read from a (foreign) tape
        kw["gaps"] = NumericValue(desc["gaps"])
    return CoCoFile(
        name=desc["name"], extension=desc.get("ext", ""), type=NumericValue(desc["ftype"]),
        data_type=NumericValue(desc["dtype"]), load_addr=NumericValue(desc["load"]),
        exec_addr=NumericValue(desc["exec"]), data=list(data), **kw)


def norm_name(name, width=8):
    """names compare without regard to case, space padded / truncated to `width`"""
    if isinstance(name, (bytes, bytearray)):
        name = bytes(name).decode("latin-1")
    return name.casefold()[:width].ljust(width)


def value_int(v):
    """int of a cocoasm Value (NoneValue -> 0)"""
    try:
        return v.int
    except AttributeError:
        return int(v)


def short_file(desc):
    d = desc["data"]
    out = dict(desc)
    out["data"] = "n={} mode={} k={} head={} tail={}".format(d["n"], d["mode"], d["k"], d.get("head", ""), d.get("tail", ""))
    return out


# ------------------------------------------------------------------ disk files

def dsk_file(lengths=DSK_LENGTHS, max_uniform=6000, big_weight=1, big=40000):
    # file type / ASCII flag pairs: 2/00 ml, 0/00 basic, 0/FF ascii, 1/FF ascii_data, 2/FF ml_ascii, 1/00 data, 3/00 text, 3/FF text_ascii
    kind = st.sampled_from(["ml", "ml", "ml", "basic", "ascii", "ascii_data", "ml_ascii", "data", "text", "text_ascii"])
    return st.builds(
        lambda name, ext, kind, load, exe, data: dict(
            name=name, ext=ext, kind=kind,
            ftype={"ml": 2, "basic": 0, "ascii": 0, "ascii_data": 1, "ml_ascii": 2, "data": 1, "text": 3, "text_ascii": 3}[kind],
            dtype=0xFF if "ascii" in kind else 0x00,
            load=load if kind.startswith("ml") else 0, exec=exe if kind.startswith("ml") else 0, data=data),
        dsk_name, dsk_ext, kind, word, word, data_desc(lengths, max_uniform=max_uniform, big=big, big_weight=big_weight))


def stream_len(desc):
    n = desc["data"]["n"]
    return n + (10 if desc["ftype"] == 2 else 0 if desc["dtype"] == 0xFF else 3)


fill_order = st.one_of(st.just(None), st.just(None), st.permutations(list(range(68))))


def disk_listing_mismatch(listed, files, datas):
    """compare DiskFile.list_files() output with the expected files; None when equal else text"""
    if len(listed) != len(files):
        return "listing has {} files, expected {}".format(len(listed), len(files))
    for idx, (g, f, d) in enumerate(zip(listed, files, datas)):
        if norm_name(g.name) != norm_name(f["name"]):
            return "file {}: name {!r}, expected {!r}".format(idx, g.name, f["name"])
        if g.extension.strip().casefold() != f["ext"][:3].casefold():
            return "file {}: extension {!r}, expected {!r}".format(idx, g.extension, f["ext"])
        if value_int(g.type) != f["ftype"] or value_int(g.data_type) != f["dtype"]:
            return "file {}: type/ascii flag {}/{} expected {}/{}".format(idx, value_int(g.type), value_int(g.data_type), f["ftype"], f["dtype"])
        if f["ftype"] == 2 and (value_int(g.load_addr) != f["load"] or value_int(g.exec_addr) != f["exec"]):
            return "file {}: load/entry {}/{} expected {}/{}".format(idx, value_int(g.load_addr), value_int(g.exec_addr), f["load"], f["exec"])
        if bytes(bytearray(g.data)) != d:
            return "file {}: {} data bytes differ from the {} written".format(idx, len(g.data), len(d))
    return None
