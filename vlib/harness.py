"""Runner shared by every check (see DESIGN.md section 2).

  ./check <ID> [--tier quick|thorough] [--replay FILE]

A check module (checks/cNN.py) provides
  PID, RULE, ASSUMPTIONS               strings / list of strings
  enumerated(tier, seed) -> iterable   deterministic cases (JSON-able), may be empty
  searches(tier) -> [(name, strategy, n_examples_total)]   Hypothesis searches
  execute(case) -> Verdict             the oracle; also what --replay calls
  render(case) -> JSON-able            how a case is shown in evidence samples
  HEALTH = {label: min_fraction}       optional generator-health floor (exit 2 when missed)
Exit status: 0 held / only known findings, 1 violation (VIOLATION line), 2 harness error.
"""
import collections
import hashlib
import importlib
import itertools
import json
import math
import multiprocessing
import os
import sys
import time
import traceback

VERIF = os.path.dirname(os.path.dirname(os.path.abspath(__file__)))
REPO = os.environ.get("VERIF_REPO", "/repo")
N_SHARDS = 16
COLLECT = bool(os.environ.get("VERIF_COLLECT"))   # development aid: do not stop/shrink at the first violation
MAX_VIOLATIONS_KEPT = 400 if COLLECT else 8


def setup_paths():
    for p in (REPO, VERIF):
        if p in sys.path:
            sys.path.remove(p)
    sys.path.insert(0, VERIF)
    sys.path.insert(0, REPO)
    sys.dont_write_bytecode = True


class HarnessError(Exception):
    pass


class Verdict(object):
    __slots__ = ("status", "detail", "fid", "labels", "nontrivial")

    def __init__(self, status, detail="", fid=None, labels=(), nontrivial=False):
        self.status = status      # ok | viol | skip
        self.detail = detail
        self.fid = fid            # candidate finding signature for a viol
        self.labels = tuple(labels)
        self.nontrivial = nontrivial

    def __repr__(self):
        return "Verdict({}, {!r}, fid={}, labels={}, nt={})".format(
            self.status, self.detail, self.fid, self.labels, self.nontrivial)


def ok(labels=(), nontrivial=False):
    return Verdict("ok", labels=labels, nontrivial=nontrivial)


def viol(detail, fid=None, labels=(), nontrivial=True):
    return Verdict("viol", detail=detail, fid=fid, labels=labels, nontrivial=nontrivial)


def skip(reason, labels=()):
    return Verdict("skip", detail=reason, labels=labels)


# --------------------------------------------------------------------------- findings

_FINDINGS = None


def load_findings():
    global _FINDINGS
    if _FINDINGS is None:
        path = os.path.join(VERIF, "known_findings.json")
        try:
            with open(path) as fh:
                data = json.load(fh)
        except Exception as err:
            raise HarnessError("cannot read known_findings.json: {}".format(err))
        _FINDINGS = {}
        for entry in data["findings"]:
            _FINDINGS[entry["id"]] = entry
    return _FINDINGS


def finding_open(fid, pid):
    if not fid:
        return False
    entry = load_findings().get(fid)
    return bool(entry and entry.get("status") == "open" and pid in entry.get("properties", [entry.get("property")]))


# --------------------------------------------------------------------------- stats

def case_hash(case):
    blob = json.dumps(case, sort_keys=True, separators=(",", ":"), default=str).encode()
    return int.from_bytes(hashlib.blake2b(blob, digest_size=8).digest(), "big")


class Stats(object):
    def __init__(self, mod, pid):
        self.mod = mod
        self.pid = pid
        self.evaluations = 0
        self.nt = set()
        self.classes = collections.Counter()
        self.known = collections.Counter()
        self.known_example = {}
        self.skipped = collections.Counter()
        self.sources = collections.Counter()
        self.samples = {}
        self.violations = []   # (case, detail, fid)
        self.viol_count = 0

    def run(self, case, source):
        """execute + bookkeeping; returns (kind, verdict), kind in ok|known|viol|skip"""
        v = self.mod.execute(case)
        self.evaluations += 1
        self.sources[source] += 1
        for lab in v.labels:
            self.classes[lab] += 1
        if v.nontrivial:
            self.nt.add(case_hash(case))
        lst = self.samples.setdefault(source, [])
        if len(lst) < 2:
            lst.append(case)
        elif v.nontrivial and len(lst) < 4:
            lst.append(case)
        if v.status == "skip":
            self.skipped[v.detail] += 1
            return "skip", v
        if v.status == "ok":
            return "ok", v
        if finding_open(v.fid, self.pid):
            self.known[v.fid] += 1
            self.known_example.setdefault(v.fid, case)
            return "known", v
        self.viol_count += 1
        if len(self.violations) < MAX_VIOLATIONS_KEPT:
            self.violations.append((case, v.detail, v.fid))
        return "viol", v

    def export(self):
        return dict(evaluations=self.evaluations, nt=self.nt, classes=self.classes, known=self.known,
                    known_example=self.known_example, skipped=self.skipped, sources=self.sources,
                    samples=self.samples, violations=self.violations, viol_count=self.viol_count)


class _Found(Exception):
    pass


def mix_seed(seed, shard, salt=0):
    h = hashlib.blake2b("{}:{}:{}".format(seed, shard, salt).encode(), digest_size=8).digest()
    return int.from_bytes(h, "big") >> 1


def run_search(stats, name, strategy, n, seed, tier):
    import hypothesis
    from hypothesis import HealthCheck, Phase, given, settings
    import hypothesis.internal.conjecture.engine as engine
    engine.MAX_SHRINKING_SECONDS = 20 if tier == "quick" else 120
    last = {}

    def prop(case):
        kind, v = stats.run(case, name)
        if kind == "viol" and not COLLECT:
            last["case"] = case
            last["detail"] = v.detail
            last["fid"] = v.fid
            raise _Found(v.detail)

    prop = given(strategy)(prop)
    prop = settings(max_examples=n, database=None, deadline=None, derandomize=False,
                    report_multiple_bugs=False, suppress_health_check=list(HealthCheck),
                    phases=[Phase.generate, Phase.shrink], print_blob=False)(prop)
    prop = hypothesis.seed(seed)(prop)
    before = len(stats.violations)
    try:
        prop()
    except _Found:
        # the last raising call is the shrunk example: keep only it
        del stats.violations[before:]
        stats.violations.append((last["case"], last["detail"], last["fid"]))
    except hypothesis.errors.Flaky as err:
        # the case failed once and passed when Hypothesis ran it again in this process.  For a check whose subject is
        # state carried from one assembly to the next (C17) that is what a leak looks like - the first run changed the
        # process - and the first observation stands (the replay file reproduces it in a fresh process).  Anywhere
        # else it is a defect of the harness.
        if "case" in last and getattr(stats.mod, "FLAKY_IS_VIOLATION", False):
            del stats.violations[before:]
            stats.violations.append((last["case"], last["detail"] + " [not repeatable within one process]", last["fid"]))
        elif "case" in last and _fails_in_fresh_process(stats.pid, last["case"]):
            # the failure did not repeat in this (by now used) process but does in a fresh one: it is a property of the
            # case and the tree, not of the harness's process
            del stats.violations[before:]
            stats.violations.append((last["case"], last["detail"] + " [repeats in a fresh process]", last["fid"]))
        else:
            raise HarnessError("hypothesis failed in search {}: {!r}".format(name, err))
    except hypothesis.errors.HypothesisException as err:
        raise HarnessError("hypothesis failed in search {}: {!r}".format(name, err))
    except Exception:
        # an internal error of the shrinker must not hide a violation that was already found
        if "case" not in last:
            raise
        del stats.violations[before:]
        stats.violations.append((last["case"], last["detail"], last["fid"]))


def _fails_in_fresh_process(pid, case):
    """replay one case in a new interpreter; True iff it reports a violation there"""
    import subprocess
    import tempfile
    with tempfile.TemporaryDirectory(prefix="verif-replay-") as tmp:
        path = os.path.join(tmp, "case.json")
        with open(path, "w") as fh:
            json.dump({"case": case}, fh, default=str)
        try:
            proc = subprocess.run([os.path.join(VERIF, "check"), pid, "--replay", path], stdout=subprocess.PIPE,
                                  stderr=subprocess.PIPE, timeout=600)
        except subprocess.TimeoutExpired:
            return False
        return proc.returncode == 1 and b"VIOLATION" in proc.stdout


def _worker(args):
    pid, tier, seed, shard = args
    try:
        setup_paths()
        mod = importlib.import_module("checks." + pid.lower())
        stats = Stats(mod, pid)
        for case in itertools.islice(mod.enumerated(tier, seed), shard, None, N_SHARDS):
            stats.run(case, "enumerated")
            if stats.viol_count > (200 if COLLECT else 10):
                break           # the verdict is settled; a tree that fails this often (each hang costs the watchdog) need not be walked to the end
        for idx, (name, strategy, n) in enumerate(mod.searches(tier)):
            per = int(math.ceil(n / float(N_SHARDS)))
            if per <= 0:
                continue
            if stats.viol_count > 10 and not COLLECT:
                break
            run_search(stats, name, strategy, per, mix_seed(seed, shard, idx), tier)
        return ("ok", stats.export())
    except Exception:
        return ("error", traceback.format_exc())


# --------------------------------------------------------------------------- main

def write_replay(pid, case, detail, fid):
    d = os.path.join(VERIF, "replays", pid)
    os.makedirs(d, exist_ok=True)
    name = "{:016x}.json".format(case_hash(case))
    with open(os.path.join(d, name), "w") as fh:
        json.dump({"property": pid, "detail": detail, "signature": fid, "case": case}, fh, indent=1, default=str)
    return os.path.join("replays", pid, name)


def load_corpus(pid):
    out = []
    d = os.path.join(VERIF, "corpus", pid)
    if os.path.isdir(d):
        for name in sorted(os.listdir(d)):
            if name.endswith(".json"):
                with open(os.path.join(d, name)) as fh:
                    data = json.load(fh)
                cases = data["cases"] if "cases" in data else [data["case"]]
                for c in cases:
                    out.append((name, c))
    for fid, entry in sorted(load_findings().items()):
        if pid in entry.get("properties", [entry.get("property")]):
            for c in entry.get("examples", {}).get(pid, []):
                out.append(("finding:" + fid, c))
    return out


def main(argv=None):
    import argparse
    ap = argparse.ArgumentParser()
    ap.add_argument("pid")
    ap.add_argument("--tier", default=os.environ.get("VERIF_TIER") or "quick", choices=["quick", "thorough"])
    ap.add_argument("--replay")
    ap.add_argument("--procs", type=int, default=int(os.environ.get("VERIF_PROCS", "0")) or (os.cpu_count() or 4))
    args = ap.parse_args(argv)
    pid = args.pid.upper()
    try:
        seed = int(os.environ.get("VERIF_SEED", "1") or "1")
    except ValueError:
        seed = 1
    t0 = time.time()
    try:
        setup_paths()
        load_findings()
        mod = importlib.import_module("checks." + pid.lower())
        if args.replay:
            return replay(mod, pid, args.replay)
        return run(mod, pid, args.tier, seed, args.procs, t0)
    except HarnessError as err:
        print("HARNESS-ERROR property={} {}".format(pid, err))
        return 2
    except Exception:
        traceback.print_exc()
        print("HARNESS-ERROR property={} unexpected exception in harness".format(pid))
        return 2


def replay(mod, pid, path):
    with open(path) as fh:
        data = json.load(fh)
    case = data["case"] if isinstance(data, dict) and "case" in data else data
    v = mod.execute(case)
    print("replay {}: {}".format(path, v))
    try:
        print(json.dumps(mod.render(case), indent=1, default=str)[:4000])
    except Exception:
        pass
    if v.status == "viol":
        if finding_open(v.fid, pid):
            print("KNOWN-FINDING: property={} {} {}".format(pid, v.fid, load_findings()[v.fid]["what"]))
            return 0
        print("VIOLATION property={} replay={}".format(pid, path))
        return 1
    return 0


def run_fuzz_campaigns(mod, pid, tier, seed, procs):
    """atheris campaigns: one process per shard for FUZZ['seconds'][tier] seconds (a time budget that ends is
    inconclusive, never a violation).  Returns None when the check has no target / the tier asks for none / atheris
    is not installed (then said so in the evidence)."""
    import random
    import subprocess
    import tempfile
    spec = getattr(mod, "FUZZ", None)
    if not spec or not spec.get("seconds", {}).get(tier):
        return None
    seconds = int(os.environ.get("VERIF_FUZZ_SECONDS") or spec["seconds"][tier])
    probe = subprocess.run([sys.executable, "-B", "-c", "import sys; sys.path.insert(0, %r); import atheris" % os.path.join(VERIF, ".deps")],
                           stdout=subprocess.DEVNULL, stderr=subprocess.DEVNULL)
    if probe.returncode != 0:
        return {"execs": 0, "skipped": "atheris is not installed (run ./setup.sh)", "violations": []}
    n = min(procs, N_SHARDS)
    with tempfile.TemporaryDirectory(prefix="verif-fuzz-") as tmp:
        running = []
        for i in range(n):
            corpus = os.path.join(tmp, "corpus%d" % i)
            os.makedirs(corpus)
            if i % 2:      # odd shards start from a few small random inputs, even shards from an empty corpus
                rnd = random.Random(mix_seed(seed, i, 77))
                for k in range(24):
                    with open(os.path.join(corpus, "seed%d" % k), "wb") as fh:
                        fh.write(bytes(rnd.randrange(256) for _ in range(rnd.randrange(4, 40))))
            env = dict(os.environ, FUZZ_PID=pid, FUZZ_OUT=tmp, FUZZ_SHARD=str(i))
            cmd = [sys.executable, "-B", os.path.join(VERIF, spec["target"]), corpus, "-max_total_time=%d" % seconds,
                   "-seed=%d" % (mix_seed(seed, i, 78) % (2 ** 31) or 1), "-timeout=300", "-rss_limit_mb=4096", "-max_len=64"]
            running.append(subprocess.Popen(cmd, env=env, cwd=tmp, stdout=subprocess.DEVNULL, stderr=subprocess.DEVNULL))
        for proc in running:
            try:
                proc.wait(timeout=seconds + 600)
            except subprocess.TimeoutExpired:
                proc.kill()
        info = {"campaigns": n, "seconds_each": seconds, "execs": 0, "distinct_nontrivial_per_campaign": [], "known": 0,
                "samples": [], "violations": [], "ended": "time budget (inconclusive by itself)"}
        for i in range(n):
            path = os.path.join(tmp, "fuzz_{}_{}.json".format(pid, i))
            if not os.path.exists(path):
                raise HarnessError("fuzz campaign {} left no statistics".format(i))
            with open(path) as fh:
                st = json.load(fh)
            info["execs"] += st["execs"]
            info["known"] += st["known"]
            info["distinct_nontrivial_per_campaign"].append(st["nontrivial"])
            if i == 0:
                info["samples"] = st["samples"]
            if st.get("violations"):
                with open(os.path.join(VERIF, st["replay"])) as fh:
                    rep = json.load(fh)
                info["violations"].append((rep["case"], st["detail"], rep.get("signature")))
        return info


def run(mod, pid, tier, seed, procs, t0):
    # 1. corpus / finding examples, in-process
    stats = Stats(mod, pid)
    for name, case in load_corpus(pid):
        stats.run(case, "corpus")
    agg = stats.export()
    # 2. shards
    jobs = [(pid, tier, seed, shard) for shard in range(N_SHARDS)]
    if procs <= 1:
        results = [_worker(j) for j in jobs]
    else:
        with multiprocessing.Pool(min(procs, N_SHARDS), maxtasksperchild=1) as pool:
            results = pool.map(_worker, jobs, chunksize=1)
    shard_info = []
    for shard, (status, res) in enumerate(results):
        if status != "ok":
            raise HarnessError("shard {} died:\n{}".format(shard, res))
        shard_info.append(res["evaluations"])
        agg["evaluations"] += res["evaluations"]
        agg["nt"] |= res["nt"]
        for k in ("classes", "known", "skipped", "sources"):
            agg[k].update(res[k])
        for fid, c in res["known_example"].items():
            agg["known_example"].setdefault(fid, c)
        for src, lst in res["samples"].items():
            dst = agg["samples"].setdefault(src, [])
            if len(dst) < 4:
                dst.extend(lst[:2] if shard else lst)
        agg["violations"].extend(res["violations"])
        agg["viol_count"] += res["viol_count"]

    # 2b. coverage-guided fuzz campaigns (thorough tier of the checks that define FUZZ)
    fuzz_info = run_fuzz_campaigns(mod, pid, tier, seed, procs)
    if fuzz_info:
        agg["evaluations"] += fuzz_info["execs"]
        agg["sources"]["atheris"] = fuzz_info["execs"]
        for v in fuzz_info["violations"]:
            agg["violations"].append(v)
            agg["viol_count"] += 1

    # 3. report
    findings = load_findings()
    for fid in sorted(agg["known"]):
        print("KNOWN-FINDING: property={} {} {} [{} cases this run]".format(
            pid, fid, findings[fid]["what"], agg["known"][fid]))
    seen = set()
    replay_paths = []
    for case, detail, fid in agg["violations"]:
        key = (fid or detail[:60]) if not COLLECT else detail[:90]
        if key in seen:
            continue
        seen.add(key)
        path = write_replay(pid, case, detail, fid)
        replay_paths.append(path)
        print("VIOLATION property={} replay={}".format(pid, path))
        print("  detail: {}".format(detail[:600]))
        if len(seen) >= (60 if COLLECT else 5):
            break

    samples = []
    for src in sorted(agg["samples"]):
        for case in agg["samples"][src][:4]:
            try:
                samples.append({"source": src, "case": mod.render(case)})
            except Exception as err:
                raise HarnessError("render failed: {!r}".format(err))
    samples = samples[:12]
    # generator health is judged on the generated / enumerated cases (fuzzer executions carry no class labels)
    total = max(agg["evaluations"] - (fuzz_info or {}).get("execs", 0), 1)
    health = {}
    bad_health = []
    for label, floor in getattr(mod, "HEALTH", {}).items():
        count = agg["classes"].get(label, 0)
        frac = count / float(total)
        health[label] = round(frac, 4)
        # floor >= 1: absolute minimum count; floor < 1: minimum fraction of all evaluations
        low = count < floor if floor >= 1 else frac < floor
        if low and not agg["violations"]:
            bad_health.append("{}: {} cases ({:.4f}) < {}".format(label, count, frac, floor))
    wall = time.time() - t0
    evidence = {
        "property_id": pid,
        "tier": tier,
        "seed": seed,
        "level": "exploration",
        "coverage": {
            "evaluations": agg["evaluations"],
            "distinct_nontrivial": len(agg["nt"]),
            "rule": mod.RULE,
            "samples": samples,
            "exhaustive": False,
            "classes": dict(sorted(agg["classes"].items())),
            "sources": dict(sorted(agg["sources"].items())),
            "skipped": dict(sorted(agg["skipped"].items())),
            "known_findings_hit": dict(sorted(agg["known"].items())),
            "generator_health": health,
            "shards": N_SHARDS,
            "per_shard_evaluations": shard_info,
            "exhaustive_subdomains": getattr(mod, "EXHAUSTIVE", {}).get(tier, []),
            "fuzzing": dict((k, v) for k, v in (fuzz_info or {}).items() if k != "violations"),
            "replays": replay_paths,
        },
        "assumptions": list(mod.ASSUMPTIONS),
        "wall_s": round(wall, 2),
        "violations": agg["viol_count"],
    }
    evdir = os.environ.get("VERIF_EVIDENCE_DIR") or os.path.join(VERIF, "evidence")
    os.makedirs(evdir, exist_ok=True)
    with open(os.path.join(evdir, pid + ".json"), "w") as fh:
        json.dump(evidence, fh, indent=1, default=str)
        fh.write("\n")
    print("{} tier={} seed={} evaluations={} distinct_nontrivial={} known={} violations={} wall={:.1f}s".format(
        pid, tier, seed, agg["evaluations"], len(agg["nt"]), sum(agg["known"].values()), agg["viol_count"], wall))
    if agg["violations"]:
        return 1
    if bad_health:
        print("HARNESS-ERROR property={} generator degenerated: {}".format(pid, "; ".join(bad_health)))
        return 2
    if len(agg["nt"]) < 2:
        print("HARNESS-ERROR property={} fewer than 2 non-trivial cases".format(pid))
        return 2
    return 0


if __name__ == "__main__":
    sys.exit(main())
