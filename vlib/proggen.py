"""Multi-statement program model: generator (Hypothesis), renderer and independent reference walk.

A program is {"org": int|None, "stmts": [stmt, ...]}; every stmt is a small JSON-able dict (see build_program).
Values are {"lit": v, "sp": spelling tag} or {"sym": name, "op": ""|"+"|"-", "c": int}.
The reference walk (check_layout) re-derives addresses, symbol values and instruction meanings from the program
description, the independent decoder and the data-directive model; it shares no code with the repository.
"""
from hypothesis import strategies as st

from vlib import asmmodel as A
from vlib import ref6809 as R

SHORT_BR = ["BCC", "BCS", "BEQ", "BGE", "BGT", "BHI", "BHS", "BLE", "BLO", "BLS", "BLT", "BMI", "BNE", "BPL", "BRA",
            "BRN", "BSR", "BVC", "BVS"]
INH = sorted(m for m in R.MNEMONICS if "inh" in R.MODES[m])
IMM8 = sorted(m for m in R.MNEMONICS if "imm8" in R.MODES[m])
IMM16 = sorted(m for m in R.MNEMONICS if "imm16" in R.MODES[m])
MEM = sorted(m for m in R.MNEMONICS if "dir" in R.MODES[m])
IDX = sorted(m for m in R.MNEMONICS if "idx" in R.MODES[m])
FCC_CHARS = "ABCDEFGHIJKLMNOPQRSTUVWXYZabcdefghijklmnopqrstuvwxyz0123456789!#$%&()*+,-.:<=>?@^"
KINDS = ["inh", "imm8", "imm16", "mem", "extind", "idx", "idxacc", "idxauto", "pcr", "pcrlit", "br", "reglist", "pair",
         "fcb", "fdb", "fcc", "rmb", "equ", "misc"]
_KIND_WEIGHTS = [3, 3, 3, 4, 2, 5, 1, 2, 3, 1, 4, 1, 1, 2, 2, 2, 2, 3, 1]
_KIND_TABLE = [k for k, w in zip(KINDS, _KIND_WEIGHTS) for _ in range(w)]


# ------------------------------------------------------------------ values

def lit(v, spi=0):
    sps = A.spellings(v)
    return {"lit": v, "sp": sps[spi % len(sps)][0]}


def value_text(val):
    if "lit" in val:
        return A.spell(val["lit"], val["sp"])
    if val.get("op"):
        return "{}{}{}".format(val["sym"], val["op"], val["c"])
    return val["sym"]


def value_of(val, env):
    if "lit" in val:
        return val["lit"]
    base = env[val["sym"]]
    if val.get("op") == "+":
        return base + val["c"]
    if val.get("op") == "-":
        return base - val["c"]
    return base


# ------------------------------------------------------------------ rendering

def operand_of(s):
    k = s["k"]
    if k in ("inh",):
        return ""
    if k in ("imm8", "imm16"):
        return "#" + value_text(s["val"])
    if k == "mem":
        return s.get("force", "") + value_text(s["val"])
    if k == "extind":
        return "[" + value_text(s["val"]) + "]"
    if k == "idx":
        if s.get("bare"):               # LDB X: the register alone means zero offset
            return s["reg"]
        body = (value_text(s["val"]) if s.get("val") else "") + "," + s["reg"]
        return "[" + body + "]" if s.get("ind") else body
    if k == "idxacc":
        body = s["acc"] + "," + s["reg"]
        return "[" + body + "]" if s.get("ind") else body
    if k == "idxauto":
        a = s["auto"]
        body = "," + (s["reg"] + a if a[0] == "+" else a + s["reg"])
        return "[" + body + "]" if s.get("ind") else body
    if k in ("pcr", "pcrlit"):
        body = value_text(s["val"]) + ",PCR"
        return "[" + body + "]" if s.get("ind") else body
    if k == "br":
        return s["to"]
    if k == "reglist":
        return ",".join(s["regs"])
    if k == "pair":
        return s["a"] + "," + s["b"]
    if k in ("fcb", "fdb"):
        return ",".join(value_text(v) for v in s["vals"])
    if k == "fcc":
        return s["delim"] + s["text"] + s["delim"]
    if k == "rmb":
        return value_text(s["val"])
    if k == "equ":
        return value_text(s["val"])
    if k == "org":
        return s.get("text") or "$%04X" % s["addr"]         # "text": another spelling of the same address
    if k == "nam":
        return s["text"]
    if k == "setdp":
        return "$%02X" % s["dp"]
    if k == "end":
        return s.get("to") or ""
    raise KeyError(k)


def mnemonic_of(s):
    k = s["k"]
    if "mn" in s:
        return s["mn"]
    return {"fcb": "FCB", "fdb": "FDB", "fcc": "FCC", "rmb": "RMB", "equ": "EQU", "org": "ORG", "nam": "NAM",
            "setdp": "SETDP", "end": "END"}[k]


def render_stmt(s, layout=None):
    lay = layout or {}
    mn = mnemonic_of(s)
    case = lay.get("case", 0)
    if case == 1:
        mn = mn.lower()
    elif case == 2:
        mn = "".join(c.lower() if i % 2 else c for i, c in enumerate(mn))
    op = operand_of(s)
    text = s.get("lab", "") + lay.get("ws1", " ") + mn + lay.get("ws2", " ") + op
    cmt = lay.get("cmt")
    if cmt is not None:
        text += lay.get("ws3", " ") + ";" + cmt
    elif not op:
        text += " "
    return text + lay.get("trail", "") + "\n"


def render(program, layouts=None):
    lines = []
    for i, s in enumerate(program["stmts"]):
        lines.append(render_stmt(s, layouts[i] if layouts else None))
    return lines


# ------------------------------------------------------------------ generation (construction from raw integers)

def size_bounds(s):
    k = s["k"]
    op = 2 if R.canon(s.get("mn", "NOP")) in ("CMPD", "CMPY", "CMPS", "CMPU", "LDY", "STY", "LDS", "STS", "SWI2", "SWI3") else 1
    if k == "inh":
        return op, op
    if k == "imm8":
        return op + 1, op + 1
    if k == "imm16":
        return op + 2, op + 2
    if k == "mem":
        return op + 1, op + 2
    if k == "extind":
        return op + 3, op + 3
    if k in ("idx", "pcr", "pcrlit"):
        return op + 1, op + 3
    if k in ("idxacc", "idxauto"):
        return op + 1, op + 1
    if k == "br":
        if s["mn"] in SHORT_BR:
            return 2, 2
        return (3, 3) if s["mn"] in ("LBRA", "LBSR") else (4, 4)
    if k in ("reglist", "pair"):
        return 2, 2
    if k == "fcb":
        return len(s["vals"]), len(s["vals"])
    if k == "fdb":
        return 2 * len(s["vals"]), 2 * len(s["vals"])
    if k == "fcc":
        return len(s["text"]), len(s["text"])
    if k == "rmb":
        return s["val"]["lit"], s["val"]["lit"]
    return 0, 0


_ORGS = [0x0000, 0x0010, 0x00F0, 0x0100, 0x0E00, 0x1000, 0x3F00, 0x7FF0, 0x8000, 0xC000, 0xF000]
_EQU_VALUES = [0, 1, 5, 15, 16, 100, 127, 128, 200, 255, 256, 300, 0x1234, 0x7FFF, 0x8000, 0xA30A, 0xFFFF, -1, -5, -16,
               -100, -128]


# constants written with a label,PCR target: mostly small, some that alone push the displacement over a width limit
_PCR_CONSTANTS = [0, 1, 2, 3, 4, 5, 0, 1, 2, 3, 4, 5, 100, 126, 127, 128, 129, 130, 200, 300, 1000]


def build_program(protos, org_raw, with_org, labels_raw):
    """protos: list of tuples of 8 small integers; everything else is derived deterministically"""
    stmts = []
    # pass 1: kinds, labels, EQU pool
    kinds = [_KIND_TABLE[p[0] % len(_KIND_TABLE)] for p in protos]
    equs = {}
    equ_def = {}      # name -> value description: literal, alias of another EQU, or other EQU +- c
    labels = []
    n_equ = sum(1 for k in kinds if k == "equ")
    backward = org_raw % 2 == 0      # chains refer to EQUs defined earlier in the text (else: later)
    for i, (p, k) in enumerate(zip(protos, kinds)):
        if k == "equ":
            j = len(equs)
            name = "E%d" % j
            equs[name] = _EQU_VALUES[p[1] % len(_EQU_VALUES)] if p[2] % 4 else (p[1] * 257 + p[3]) % 65536
            others = list(range(0, j)) if backward else list(range(j + 1, n_equ))
            if others and p[4] % 3 == 0:
                equ_def[name] = ("E%d" % others[p[5] % len(others)], ["", "+", "-"][p[6] % 3], 1 + p[7] % 8)
        elif labels_raw[i % len(labels_raw)] % 5 < 2:
            labels.append((i, "L%d" % len(labels)))
    # values of the EQUs that are defined through another EQU (no cycles: references go one way only)
    for j in (range(n_equ) if backward else range(n_equ - 1, -1, -1)):
        name = "E%d" % j
        if name in equ_def:
            base, op, c = equ_def[name]
            v = equs[base] + (c if op == "+" else -c if op == "-" else 0)
            if -32768 <= v <= 65535:
                equs[name] = v
            else:
                del equ_def[name]
    label_at = dict(labels)
    label_names = [n for _, n in labels]
    small_equ = [n for n, v in equs.items() if -128 <= v <= 255]
    byte_equ = [n for n, v in equs.items() if 0 <= v <= 255]
    pos_equ = [n for n, v in equs.items() if 0 <= v <= 65000]
    any_equ = list(equs)
    equ_iter = iter(list(equs))

    def val_lit(a, b, lo, hi):
        grid = [x for x in A.BOUNDARY if lo <= x <= hi]
        v = grid[a % len(grid)] if b % 3 else lo + (a * 7919 + b) % (hi - lo + 1)
        return lit(v, b)

    def val_any(p, lo, hi, allow_label, pool):
        """literal, EQU symbol (+-c) or label (+-c) that stays inside lo..hi"""
        mode = p[4] % 6
        if mode in (0, 1) and pool:
            name = pool[p[5] % len(pool)]
            v = equs[name]
            c = p[6] % 9
            if p[7] % 3 == 0 and c and lo <= v + c <= hi and v + c <= 65535:
                return {"sym": name, "op": "+", "c": c}
            if p[7] % 3 == 1 and c and lo <= v - c <= hi and v - c >= -32768:
                return {"sym": name, "op": "-", "c": c}
            return {"sym": name, "op": "", "c": 0}
        if mode in (2, 3) and allow_label and label_names:
            name = label_names[p[5] % len(label_names)]
            c = p[6] % 9
            if p[7] % 3 == 0 and c:
                return {"sym": name, "op": "+", "c": c}
            if p[7] % 3 == 1 and c:
                return {"sym": name, "op": "-", "c": c}
            return {"sym": name, "op": "", "c": 0}
        return val_lit(p[1], p[2], lo, hi)

    for i, (p, k) in enumerate(zip(protos, kinds)):
        s = {"lab": label_at.get(i, ""), "k": k}
        if k == "inh":
            s["mn"] = INH[p[1] % len(INH)]
        elif k == "imm8":
            s["mn"] = IMM8[p[1] % len(IMM8)]
            s["val"] = val_any(p, -128, 255, False, small_equ)
        elif k == "imm16":
            s["mn"] = IMM16[p[1] % len(IMM16)]
            s["val"] = val_any(p, -32768, 65535, True, any_equ)
        elif k == "mem":
            s["mn"] = MEM[p[1] % len(MEM)]
            force = ["", "", "", "<", ">"][p[3] % 5]
            if force == "<":
                s["val"] = val_any(p, 0, 255, False, byte_equ)
            else:
                s["val"] = val_any(p, 0, 65535, True, pos_equ)
            s["force"] = force
        elif k == "extind":
            s["mn"] = IDX[p[1] % len(IDX)]
            v = val_any(p, 0, 65535, True, pos_equ)
            if "sym" in v and v["sym"].startswith("L"):
                v = dict(v, op="", c=0)          # [label+n] is outside the healthy sub-language (C04 owns it)
            s["val"] = v
        elif k == "idx":
            s["mn"] = IDX[p[1] % len(IDX)]
            s["reg"] = A.IDX_REGS[p[2] % 4]
            s["ind"] = p[3] % 4 == 0
            s["val"] = None if p[3] % 5 == 1 else val_any(p, -32768, 65535, True, any_equ)
            if s["val"] is None and not s["ind"] and p[4] % 2 == 0:
                s["bare"] = True
        elif k == "idxacc":
            s["mn"] = IDX[p[1] % len(IDX)]
            s["acc"] = "ABD"[p[2] % 3]
            s["reg"] = A.IDX_REGS[p[3] % 4]
            s["ind"] = p[4] % 3 == 0
        elif k == "idxauto":
            s["mn"] = IDX[p[1] % len(IDX)]
            s["reg"] = A.IDX_REGS[p[2] % 4]
            s["auto"] = ["+", "++", "-", "--"][p[3] % 4]
            s["ind"] = p[4] % 3 == 0 and len(s["auto"]) == 2
        elif k == "pcr":
            if not label_names:
                s["k"] = "inh"
                s["mn"] = "NOP"
            else:
                s["mn"] = IDX[p[1] % len(IDX)]
                s["ind"] = p[3] % 3 == 0
                c = _PCR_CONSTANTS[p[6] % len(_PCR_CONSTANTS)]
                s["val"] = {"sym": label_names[p[5] % len(label_names)], "op": ["", "+", "-"][p[7] % 3] if c else "", "c": c}
        elif k == "pcrlit":
            s["mn"] = IDX[p[1] % len(IDX)]
            s["ind"] = p[3] % 3 == 0
            s["val"] = val_lit(p[1], p[2], -32768, 65535)
        elif k == "br":
            if not label_names:
                s["k"] = "inh"
                s["mn"] = "NOP"
            else:
                s["mn"] = SHORT_BR[p[1] % len(SHORT_BR)]
                if p[2] % 4 == 0:
                    s["mn"] = "L" + s["mn"]
                s["to"] = label_names[p[5] % len(label_names)]
        elif k == "reglist":
            s["mn"] = ["PSHS", "PULS", "PSHU", "PULU"][p[1] % 4]
            other = "U" if s["mn"][-1] == "S" else "S"
            pool = ["CC", "A", "B", "DP", "X", "Y", other, "PC", "D"]
            regs = [r for j, r in enumerate(pool) if (p[2] * 31 + p[3]) >> j & 1] or ["A"]
            s["regs"] = regs
        elif k == "pair":
            s["mn"] = ["TFR", "EXG"][p[1] % 2]
            grp = A.PAIR8 if p[2] % 2 else A.PAIR16
            s["a"] = grp[p[3] % len(grp)]
            s["b"] = grp[p[4] % len(grp)]
        elif k == "fcb":
            n = 1 + p[1] % 6 if p[2] % 5 else 1 + p[1] % 40
            s["vals"] = [val_lit(p[3] + j, p[4] + j, 0, 255) for j in range(n)]
            if p[5] % 3 == 0 and byte_equ:
                for j in range(0, n, 2):
                    q = (p[0], p[1] + j, p[2], p[3], j % 2, p[5] + j, p[6] + j, p[7] + j)
                    s["vals"][j] = val_any(q, 0, 255, False, byte_equ)
        elif k == "fdb":
            n = 1 + p[1] % 5 if p[2] % 5 else 1 + p[1] % 30
            s["vals"] = [val_lit(p[3] + j, p[4] + j, 0, 65535) for j in range(n)]
            if p[5] % 2 == 0:
                for j in range(0, n, 2):
                    q = (p[0], p[1] + j, p[2], p[3], (p[4] + j) % 4, p[5] + j, p[6] + j, p[7] + j)
                    s["vals"][j] = val_any(q, 0, 65535, True, pos_equ)
        elif k == "fcc":
            n = p[1] % 12 if p[2] % 4 else p[1] % 60
            s["delim"] = '"' if p[3] % 3 else "/"
            chars = [c for c in FCC_CHARS if c != s["delim"]]
            s["text"] = "".join(chars[(p[4] * 131 + j * (p[5] + 7)) % len(chars)] for j in range(n))
        elif k == "rmb":
            s["val"] = lit(p[1] % 20 if p[2] % 4 else (p[1] * 13) % 300, p[3])
        elif k == "equ":
            name = next(equ_iter)
            s["lab"] = name
            if name in equ_def:
                base, op, c = equ_def[name]
                s["val"] = {"sym": base, "op": op, "c": c if op else 0}
            else:
                s["val"] = lit(equs[name], p[3])
        elif k == "misc":
            which = p[1] % 3
            if which == 0:
                s["k"] = "nam"
                s["text"] = "PRG%d" % (p[2] % 100)
            elif which == 1:
                s["k"] = "setdp"
                s["dp"] = 0
            else:
                s["k"] = "inh"
                s["mn"] = "NOP"
        stmts.append(s)

    # pass 2: place ORG, keep everything inside 0..65535, make short branches reachable, label-c >= 0
    total_max = sum(size_bounds(s)[1] for s in stmts)
    org = _ORGS[org_raw % len(_ORGS)] if org_raw % 3 else (org_raw * 2654435761) % 65536
    org = max(0, min(org, 65536 - total_max - 32))
    if org < 16:
        for s in stmts:
            for v in ([s.get("val")] if isinstance(s.get("val"), dict) else []) + [x for x in s.get("vals", []) if isinstance(x, dict)]:
                if v.get("sym", "").startswith("L") and v.get("op") == "-":
                    v["op"] = "+"
    # short branch reachability by construction: distance bound from maximal sizes
    starts = []
    acc = 0
    for s in stmts:
        starts.append(acc)
        acc += size_bounds(s)[1]
    starts.append(acc)
    label_idx = dict((n, i) for i, n in labels)
    for i, s in enumerate(stmts):
        if s["k"] == "br" and s["mn"] in SHORT_BR:
            j = label_idx[s["to"]]
            dist = starts[j] - starts[i + 1] if j > i else starts[i + 1] - starts[j]
            if dist > 120:
                s["mn"] = "L" + s["mn"]
    head = []
    if with_org:
        head.append({"lab": "", "k": "org", "addr": org})
    stmts = head + stmts
    if with_org % 4 == 3:
        tgt = label_names[org_raw % len(label_names)] if label_names and org_raw % 2 else None
        stmts.append({"lab": "", "k": "end", "to": tgt})
    # label+c of a label,PCR target must stay within 16 bits (beyond $FFFF the tool may reject the expression; what it
    # does there is not this generator's subject): large constants are reduced where the program could reach that far
    top = (org if with_org else 0) + sum(size_bounds(s)[1] for s in stmts)
    for s in stmts:
        if s["k"] == "pcr" and s["val"].get("op") == "+" and top + s["val"]["c"] > 0xFFFF:
            s["val"]["c"] %= 6
            if not s["val"]["c"]:
                s["val"]["op"] = ""
    return {"org": org if with_org else None, "stmts": stmts}


_proto = st.tuples(*([st.integers(0, 255)] * 8))
program = st.builds(build_program, st.lists(_proto, min_size=1, max_size=40), st.integers(0, 10 ** 6),
                    st.sampled_from([1, 1, 1, 2, 3, 0]), st.lists(st.integers(0, 4), min_size=1, max_size=12))
small_program = st.builds(build_program, st.lists(_proto, min_size=1, max_size=12), st.integers(0, 10 ** 6),
                          st.sampled_from([1, 1, 1, 2, 3, 0]), st.lists(st.integers(0, 4), min_size=1, max_size=12))


# ------------------------------------------------------------------ reference walk

def data_bytes(s, env=None):
    k = s["k"]
    if k == "fcb":
        return bytes(value_of(v, env) & 0xFF for v in s["vals"])
    if k == "fdb":
        out = bytearray()
        for v in s["vals"]:
            n = value_of(v, env)
            out += bytes([(n >> 8) & 0xFF, n & 0xFF])
        return bytes(out)
    if k == "fcc":
        return s["text"].encode("latin-1")
    if k == "rmb":
        return bytes(s["val"]["lit"])
    return b""


INSTR_KINDS = ("inh", "imm8", "imm16", "mem", "extind", "idx", "idxacc", "idxauto", "pcr", "pcrlit", "br", "reglist", "pair")


def expected_meaning(s, env, addr, length):
    """normal form the statement means (env = symbol values)"""
    k = s["k"]
    if k == "inh":
        return ("inh",)
    if k == "imm8":
        return ("imm", value_of(s["val"], env) % 256, 1)
    if k == "imm16":
        return ("imm", value_of(s["val"], env) % 65536, 2)
    if k == "mem":
        f = s.get("force", "")
        return ("mem", value_of(s["val"], env) % 65536, "dir" if f == "<" else "ext" if f == ">" else None)
    if k == "extind":
        return ("idx", None, "extind", value_of(s["val"], env) % 65536, True)
    if k == "idx":
        off = value_of(s["val"], env) % 65536 if s.get("val") else 0
        return ("idx", s["reg"], "off", off, bool(s.get("ind")))
    if k == "idxacc":
        return ("idx", s["reg"], "acc:" + s["acc"], None, bool(s.get("ind")))
    if k == "idxauto":
        return ("idx", s["reg"], {"+": "inc1", "++": "inc2", "-": "dec1", "--": "dec2"}[s["auto"]], None, bool(s.get("ind")))
    if k == "pcr":
        return ("idx", None, "pcr", (value_of(s["val"], env) - (addr + length)) % 65536, bool(s.get("ind")))
    if k == "pcrlit":
        return ("idx", None, "pcr", value_of(s["val"], env) % 65536, bool(s.get("ind")))
    if k == "br":
        return ("rel", env[s["to"]] - (addr + length))
    if k == "reglist":
        regs = set()
        for r in s["regs"]:
            regs |= {"A", "B"} if r == "D" else {r}
        return ("stk", frozenset(regs))
    if k == "pair":
        return ("pair", s["a"], s["b"])
    raise KeyError(k)


def meaning_matches(expected, insn):
    nf = insn.nf
    if expected[0] == "rel":
        if nf[0] != "rel":
            return False
        if nf[2] == 1:
            return -128 <= expected[1] <= 127 and expected[1] == nf[1]
        return (expected[1] - nf[1]) % 65536 == 0
    return A.nf_matches(expected, nf)


def check_layout(program, out, check_meaning=True):
    """independent walk; returns (problem text or None, layout list of (addr, length), env)"""
    stmts = program["stmts"]
    rows = out.rows
    if len(rows) != len(stmts):
        return "listing has {} rows for {} statements".format(len(rows), len(stmts)), None, None
    origin = out.origin if out.origin is not None else 0
    if program["org"] is not None and out.origin != program["org"]:
        return "reported origin {} but ORG ${:04X} was written".format(out.origin, program["org"]), None, None
    if program["org"] is None and out.origin not in (None, 0):
        return "reported origin {} without any ORG".format(out.origin), None, None
    image = out.image
    a = origin
    layout = []
    env = {}
    # EQU values: literals first, then definitions through other EQUs (any textual order)
    equ_values = {}
    pending = [s for s in stmts if s["k"] == "equ"]
    while pending:
        rest = []
        for s in pending:
            v = s["val"]
            if "lit" in v:
                equ_values[s["lab"]] = v["lit"]
            elif v["sym"] in equ_values:
                equ_values[s["lab"]] = value_of(v, equ_values)
            else:
                rest.append(s)
        if len(rest) == len(pending):
            return "EQU definitions cannot be ordered (harness)", None, None
        pending = rest
    decoded = []
    for i, s in enumerate(stmts):
        k = s["k"]
        row_addr = rows[i][0]
        if k == "org":
            a = s["addr"]
        if k not in ("end", "nam", "equ", "setdp"):
            want = a
            if row_addr != want:
                return "statement {} ({}) listed at ${:04X}, layout walk says ${:04X}".format(
                    i, rows[i][2].strip()[:50], row_addr if row_addr is not None else -1, want), None, None
        if s.get("lab") and k != "equ":
            env[s["lab"]] = a
        if k == "equ":
            env[s["lab"]] = equ_values[s["lab"]]
        off = a - origin
        if k in INSTR_KINDS:
            insn = R.decode(image, off)
            if insn is None:
                return "statement {} ({}): bytes at ${:04X} ({}) are not an instruction".format(
                    i, rows[i][2].strip()[:50], a, image[off:off + 5].hex()), None, None
            length = insn.length
            decoded.append(insn)
        else:
            length = size_bounds(s)[0]          # data directives have a size that does not depend on symbol values
            decoded.append(None)
        if length:
            col = image[off:off + length].hex().upper()[:10]
            if rows[i][1].upper() != col:
                return "statement {} ({}): listing shows bytes {} but the image holds {}".format(
                    i, rows[i][2].strip()[:50], rows[i][1], col), None, None
        layout.append((a, length))
        a += length
    if len(image) != a - origin:
        return "image is {} bytes, statements add up to {}".format(len(image), a - origin), None, None
    # symbol table
    symtab = dict(out.symbols)
    if len(symtab) != len(out.symbols):
        return "symbol table lists a name twice", None, None
    for name, value in env.items():
        if name not in symtab:
            return "symbol {} missing from the symbol table".format(name), None, None
        shown = symtab[name]
        if shown is None or not ((shown - value) % 65536 == 0 or (value < 0 and shown == value % 256)):
            return "symbol {} = {} in the table, expected {}".format(name, symtab[name], value), None, None
    extra = set(symtab) - set(env)
    if extra:
        return "symbol table has unexpected entries {}".format(sorted(extra)), None, None
    for i, s in enumerate(stmts):
        if s["k"] in ("fcb", "fdb", "fcc", "rmb"):
            addr, length = layout[i]
            want = data_bytes(s, env)
            if image[addr - origin:addr - origin + length] != want:
                return "statement {} ({}): image holds {} expected {}".format(
                    i, rows[i][2].strip()[:50], image[addr - origin:addr - origin + length][:12].hex(), want[:12].hex()), None, None
    if check_meaning:
        for i, s in enumerate(stmts):
            if s["k"] not in INSTR_KINDS:
                continue
            insn = decoded[i]
            addr, length = layout[i]
            if insn.op != R.canon(s["mn"]):
                return "statement {} ({}) decodes as {}".format(i, rows[i][2].strip()[:50], insn.op), None, None
            exp = expected_meaning(s, env, addr, length)
            if not meaning_matches(exp, insn):
                return "statement {} ({}) at ${:04X}: bytes {} decode as {}, source means {}".format(
                    i, rows[i][2].strip()[:50], addr, image[addr - origin:addr - origin + length].hex(), insn.nf, exp), None, None
    return None, layout, env

# programs with many labels (every statement has a 2 in 3 chance to carry one): more cross references
rich_program = st.builds(build_program, st.lists(_proto, min_size=8, max_size=40), st.integers(0, 10 ** 6),
                         st.sampled_from([1, 1, 1, 2, 3, 0]), st.lists(st.integers(0, 2), min_size=1, max_size=12))
