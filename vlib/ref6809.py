"""Independent MC6809 model: opcode map, instruction decoder, semantic normal form (DESIGN.md 4.1).

Built from the MC6809 datasheet opcode map (three pages), not from cocoasm/instruction.py.
decode(buf, pos) -> Insn | None (illegal / truncated); Insn.nf is the normal form compared by the checks:

  ("inh",)
  ("imm", value, width_bytes)
  ("mem", effective_address, "dir"|"ext")            direct page assumed 0
  ("idx", reg|None, variant, offset|None, indirect)   variant: off | acc:A|acc:B|acc:D | inc1 inc2 dec1 dec2 | pcr | extind
                                                      "off" with offset 0 covers ,R and 0,R in any width
  ("rel", signed_displacement, width_bytes)
  ("stk", frozenset(register names))
  ("pair", src, dst)
"""
import collections

Insn = collections.namedtuple("Insn", "op kind length nf enc")   # enc: encoding detail (e.g. offset width)

ALIASES = [("ASL", "LSL"), ("ASLA", "LSLA"), ("ASLB", "LSLB"), ("BCC", "BHS"), ("BCS", "BLO"),
           ("LBCC", "LBHS"), ("LBCS", "LBLO")]
_CANON = {}
for _a, _b in ALIASES:
    _CANON[_b] = _a


def canon(mnemonic):
    m = mnemonic.upper()
    return _CANON.get(m, m)


PAGE0 = {}
PAGE2 = {}
PAGE3 = {}


def _put(page, opcode, op, kind):
    assert opcode not in page, hex(opcode)
    page[opcode] = (op, kind)


# read-modify-write group: direct $0x, indexed $6x, extended $7x, accumulator $4x / $5x
_RMW = {0x0: "NEG", 0x3: "COM", 0x4: "LSR", 0x6: "ROR", 0x7: "ASR", 0x8: "ASL", 0x9: "ROL", 0xA: "DEC",
        0xC: "INC", 0xD: "TST", 0xE: "JMP", 0xF: "CLR"}
for _lo, _op in _RMW.items():
    _put(PAGE0, 0x00 + _lo, _op, "dir")
    _put(PAGE0, 0x60 + _lo, _op, "idx")
    _put(PAGE0, 0x70 + _lo, _op, "ext")
    if _op != "JMP":
        _put(PAGE0, 0x40 + _lo, _op + "A", "inh")
        _put(PAGE0, 0x50 + _lo, _op + "B", "inh")

for _opc, _op in {0x12: "NOP", 0x13: "SYNC", 0x19: "DAA", 0x1D: "SEX", 0x39: "RTS", 0x3A: "ABX", 0x3B: "RTI",
                  0x3D: "MUL", 0x3F: "SWI"}.items():
    _put(PAGE0, _opc, _op, "inh")
_put(PAGE0, 0x16, "LBRA", "rel16")
_put(PAGE0, 0x17, "LBSR", "rel16")
_put(PAGE0, 0x1A, "ORCC", "imm8")
_put(PAGE0, 0x1C, "ANDCC", "imm8")
_put(PAGE0, 0x3C, "CWAI", "imm8")
_put(PAGE0, 0x1E, "EXG", "pair")
_put(PAGE0, 0x1F, "TFR", "pair")
_BR = ["BRA", "BRN", "BHI", "BLS", "BCC", "BCS", "BNE", "BEQ", "BVC", "BVS", "BPL", "BMI", "BGE", "BLT", "BGT", "BLE"]
for _i, _op in enumerate(_BR):
    _put(PAGE0, 0x20 + _i, _op, "rel8")
    if _i:
        _put(PAGE2, 0x20 + _i, "L" + _op, "rel16")
_put(PAGE0, 0x8D, "BSR", "rel8")
for _i, _op in enumerate(["LEAX", "LEAY", "LEAS", "LEAU"]):
    _put(PAGE0, 0x30 + _i, _op, "idx")
_put(PAGE0, 0x34, "PSHS", "stkS")
_put(PAGE0, 0x35, "PULS", "stkS")
_put(PAGE0, 0x36, "PSHU", "stkU")
_put(PAGE0, 0x37, "PULU", "stkU")

# accumulator / memory group, columns $8x imm, $9x dir, $Ax idx, $Bx ext  (A side) and $Cx..$Fx (B side)
_ACC_A = {0x0: ("SUBA", 8), 0x1: ("CMPA", 8), 0x2: ("SBCA", 8), 0x3: ("SUBD", 16), 0x4: ("ANDA", 8), 0x5: ("BITA", 8),
          0x6: ("LDA", 8), 0x7: ("STA", 0), 0x8: ("EORA", 8), 0x9: ("ADCA", 8), 0xA: ("ORA", 8), 0xB: ("ADDA", 8),
          0xC: ("CMPX", 16), 0xD: ("JSR", 0), 0xE: ("LDX", 16), 0xF: ("STX", 0)}
_ACC_B = {0x0: ("SUBB", 8), 0x1: ("CMPB", 8), 0x2: ("SBCB", 8), 0x3: ("ADDD", 16), 0x4: ("ANDB", 8), 0x5: ("BITB", 8),
          0x6: ("LDB", 8), 0x7: ("STB", 0), 0x8: ("EORB", 8), 0x9: ("ADCB", 8), 0xA: ("ORB", 8), 0xB: ("ADDB", 8),
          0xC: ("LDD", 16), 0xD: ("STD", 0), 0xE: ("LDU", 16), 0xF: ("STU", 0)}
for _base, _tab in ((0x80, _ACC_A), (0xC0, _ACC_B)):
    for _lo, (_op, _w) in _tab.items():
        if _w:
            _put(PAGE0, _base + _lo, _op, "imm8" if _w == 8 else "imm16")
        _put(PAGE0, _base + 0x10 + _lo, _op, "dir")
        _put(PAGE0, _base + 0x20 + _lo, _op, "idx")
        _put(PAGE0, _base + 0x30 + _lo, _op, "ext")

_put(PAGE2, 0x3F, "SWI2", "inh")
_put(PAGE3, 0x3F, "SWI3", "inh")
for _page, _lo, _op, _store in ((PAGE2, 0x83, "CMPD", False), (PAGE2, 0x8C, "CMPY", False), (PAGE2, 0x8E, "LDY", False),
                                (PAGE2, 0x8F, "STY", True), (PAGE2, 0xCE, "LDS", False), (PAGE2, 0xCF, "STS", True),
                                (PAGE3, 0x83, "CMPU", False), (PAGE3, 0x8C, "CMPS", False)):
    if not _store:
        _put(_page, _lo, _op, "imm16")
    _put(_page, _lo + 0x10, _op, "dir")
    _put(_page, _lo + 0x20, _op, "idx")
    _put(_page, _lo + 0x30, _op, "ext")

PAIR_CODE = {"D": 0x0, "X": 0x1, "Y": 0x2, "U": 0x3, "S": 0x4, "PC": 0x5, "A": 0x8, "B": 0x9, "CC": 0xA, "DP": 0xB}
PAIR_NAME = dict((v, k) for k, v in PAIR_CODE.items())
IDX_REG = ["X", "Y", "U", "S"]


def _s8(v):
    return v - 256 if v & 0x80 else v


def _s16(v):
    return v - 65536 if v & 0x8000 else v


def decode_index(buf, pos):
    """buf[pos] is the post-byte. -> (nf, extra_bytes, enc) or None"""
    if pos >= len(buf):
        return None
    pb = buf[pos]
    reg = IDX_REG[(pb >> 5) & 3]
    if not pb & 0x80:
        off = pb & 0x1F
        if off & 0x10:
            off -= 32
        return ("idx", reg, "off", off & 0xFFFF, False), 0, "5"
    ind = bool(pb & 0x10)
    low = pb & 0x0F

    def need(n):
        return pos + 1 + n <= len(buf)

    if low == 0x0:
        return None if ind else (("idx", reg, "inc1", None, False), 0, "")
    if low == 0x1:
        return ("idx", reg, "inc2", None, ind), 0, ""
    if low == 0x2:
        return None if ind else (("idx", reg, "dec1", None, False), 0, "")
    if low == 0x3:
        return ("idx", reg, "dec2", None, ind), 0, ""
    if low == 0x4:
        return ("idx", reg, "off", 0, ind), 0, "0"
    if low == 0x5:
        return ("idx", reg, "acc:B", None, ind), 0, ""
    if low == 0x6:
        return ("idx", reg, "acc:A", None, ind), 0, ""
    if low == 0x8:
        if not need(1):
            return None
        return ("idx", reg, "off", _s8(buf[pos + 1]) & 0xFFFF, ind), 1, "8"
    if low == 0x9:
        if not need(2):
            return None
        return ("idx", reg, "off", (buf[pos + 1] << 8) | buf[pos + 2], ind), 2, "16"
    if low == 0xB:
        return ("idx", reg, "acc:D", None, ind), 0, ""
    if low == 0xC:
        if not need(1):
            return None
        return ("idx", None, "pcr", _s8(buf[pos + 1]) & 0xFFFF, ind), 1, "8"
    if low == 0xD:
        if not need(2):
            return None
        return ("idx", None, "pcr", (buf[pos + 1] << 8) | buf[pos + 2], ind), 2, "16"
    if pb == 0x9F:
        if not need(2):
            return None
        return ("idx", None, "extind", (buf[pos + 1] << 8) | buf[pos + 2], True), 2, "16"
    return None


def decode(buf, pos=0):
    """decode one instruction at buf[pos:]; None when illegal or truncated"""
    n = len(buf)
    if pos >= n:
        return None
    page = PAGE0
    p = pos
    if buf[p] == 0x10:
        page = PAGE2
        p += 1
    elif buf[p] == 0x11:
        page = PAGE3
        p += 1
    if p >= n or buf[p] not in page:
        return None
    op, kind = page[buf[p]]
    p += 1
    enc = ""
    if kind == "inh":
        nf = ("inh",)
    elif kind == "imm8":
        if p + 1 > n:
            return None
        nf = ("imm", buf[p], 1)
        p += 1
    elif kind == "imm16":
        if p + 2 > n:
            return None
        nf = ("imm", (buf[p] << 8) | buf[p + 1], 2)
        p += 2
    elif kind == "dir":
        if p + 1 > n:
            return None
        nf = ("mem", buf[p], "dir")
        p += 1
    elif kind == "ext":
        if p + 2 > n:
            return None
        nf = ("mem", (buf[p] << 8) | buf[p + 1], "ext")
        p += 2
    elif kind == "idx":
        r = decode_index(buf, p)
        if r is None:
            return None
        nf, extra, enc = r
        p += 1 + extra
    elif kind == "rel8":
        if p + 1 > n:
            return None
        nf = ("rel", _s8(buf[p]), 1)
        p += 1
    elif kind == "rel16":
        if p + 2 > n:
            return None
        nf = ("rel", _s16((buf[p] << 8) | buf[p + 1]), 2)
        p += 2
    elif kind in ("stkS", "stkU"):
        if p + 1 > n:
            return None
        other = "U" if kind == "stkS" else "S"
        names = ["CC", "A", "B", "DP", "X", "Y", other, "PC"]
        nf = ("stk", frozenset(names[i] for i in range(8) if buf[p] & (1 << i)))
        p += 1
    elif kind == "pair":
        if p + 1 > n:
            return None
        hi, lo = buf[p] >> 4, buf[p] & 0xF
        if hi not in PAIR_NAME or lo not in PAIR_NAME or (hi >= 8) != (lo >= 8):
            return None
        nf = ("pair", PAIR_NAME[hi], PAIR_NAME[lo])
        p += 1
    else:
        raise AssertionError(kind)
    return Insn(op, kind, p - pos, nf, enc)


def decode_all(buf, pos=0, end=None):
    """decode consecutive instructions covering buf[pos:end] exactly; None if that is impossible"""
    end = len(buf) if end is None else end
    out = []
    while pos < end:
        insn = decode(buf[:end], pos)
        if insn is None:
            return None
        out.append(insn)
        pos += insn.length
    return out


# ---- mode table (which mnemonic has which operand kinds) derived from the opcode map itself
MODES = collections.defaultdict(set)
for _page in (PAGE0, PAGE2, PAGE3):
    for _opc, (_op, _kind) in _page.items():
        MODES[_op].add(_kind)
for _a, _b in ALIASES:
    MODES[_b] = MODES[_a]
MNEMONICS = sorted(MODES)


def nf_equal(expected, got):
    """compare normal forms modulo the encodings the CPU cannot tell apart"""
    if expected[0] != got[0]:
        # direct vs extended compare by effective address only when not forced (caller passes mode None)
        return False
    if expected[0] == "mem":
        if expected[1] != got[1]:
            return False
        return expected[2] is None or expected[2] == got[2]
    return tuple(expected) == tuple(got)


def self_test():
    """round-trip sanity of the model itself: every legal opcode decodes with the advertised length"""
    count = 0
    for prefix, page in ((b"", PAGE0), (b"\x10", PAGE2), (b"\x11", PAGE3)):
        for opc, (op, kind) in page.items():
            if kind == "idx":
                for pb in range(256):
                    r = decode(prefix + bytes([opc, pb, 0x12, 0x34]))
                    if r is not None:
                        assert r.op == op and r.length in (len(prefix) + 2, len(prefix) + 3, len(prefix) + 4)
                        count += 1
            else:
                r = decode(prefix + bytes([opc, 0x01, 0x02]))
                assert r is not None and r.op == op, (hex(opc), op)
                count += 1
    return count


if __name__ == "__main__":
    print(len(MNEMONICS), "mnemonics;", self_test(), "encodings decoded")
